#![no_main]
use libfuzzer_sys::fuzz_target;

fuzz_target!(|data: &[u8]| {
    vp_harness::fuzzing::fuzz_one("tlv_encode", data);
});
