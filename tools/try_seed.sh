#!/bin/bash
# Evaluates one seeded change against /repo and the registered checks.
#   tools/try_seed.sh <dir with patch.diff [+ demo.rs]> <crate for the demo or -> <check id> [<check id> ...]
# Steps: (1) demo passes on the clean tree; (2) apply the patch; (3) the existing test suite still
# passes; (4) the demo fails; (5) run the listed quick checks; (6) restore /repo.
set -u
DIR="$1"; CRATE="$2"; shift 2
cd /repo || exit 2
if [ -n "$(git status --porcelain)" ]; then echo "repo dirty"; exit 2; fi
restore() { git -C /repo checkout -- . ; rm -f /repo/*/tests/seed_demo.rs; rmdir /repo/*/tests 2>/dev/null; }
trap restore EXIT
demo() {
  [ "$CRATE" = "-" ] && { echo "n/a"; return; }
  mkdir -p /repo/$CRATE/tests && cp "$DIR/demo.rs" /repo/$CRATE/tests/seed_demo.rs
  if timeout 600 cargo test --offline -p $CRATE --test seed_demo >/tmp/seed_demo.log 2>&1; then echo pass; else echo FAIL; fi
  rm -f /repo/$CRATE/tests/seed_demo.rs
}
echo "demo on clean tree: $(demo)"
git apply "$DIR/patch.diff" || { echo "patch does not apply"; exit 2; }
if cargo test --workspace --no-fail-fast --offline >/tmp/seed_tests.log 2>&1; then echo "existing tests with the change: pass"; else echo "existing tests with the change: FAIL"; grep -E "^test .* FAILED|panicked" /tmp/seed_tests.log | head -5; fi
echo "demo with the change: $(demo)"
for id in "$@"; do
  out=$(cd /verif && timeout 900 ./check $id --tier quick 2>&1)
  rc=$?
  echo "check $id: exit $rc: $(echo "$out" | grep -E "signature|INCONCLUSIVE" | head -2 | tr '\n' ' ')"
  f=$(echo "$out" | grep -oE "replay=[^ ]+" | head -1 | cut -d= -f2)
  [ -n "$f" ] && echo "   replay: $f"
done
