#!/bin/bash
# Region coverage of /repo's sources by the quick checks (a generator health measurement, not a check).
#   tools/coverage.sh [scratch dir]     -> prints the llvm-cov summary and writes <scratch>/uncovered.txt
# Builds an instrumented copy of the harness in a scratch target dir (outside /verif), runs every
# quick check from it, merges the profiles and reports on files under /repo only.
set -eu
SCRATCH="${1:-/root/scratch/cov}"
rm -rf "$SCRATCH"; mkdir -p "$SCRATCH/prof"
SYSROOT=$(rustc +nightly --print sysroot)
LLVM="$SYSROOT/lib/rustlib/x86_64-unknown-linux-gnu/bin"
cd /verif/harness
RUSTFLAGS="-C instrument-coverage" CARGO_TARGET_DIR="$SCRATCH/target" cargo +nightly build --release --offline 2>&1 | tail -1
BIN="$SCRATCH/target/release/vp"
# A scratch VERIF_ROOT, so that the run does not touch /verif/evidence or /verif/replays.
mkdir -p "$SCRATCH/root/harness/target" "$SCRATCH/root/replays" "$SCRATCH/root/evidence"
cp -r /verif/replays/regress "$SCRATCH/root/replays/regress"
cp /verif/KNOWN_FINDINGS.txt "$SCRATCH/root/"
for i in $(seq -w 1 20); do
  LLVM_PROFILE_FILE="$SCRATCH/prof/C$i-%p.profraw" VERIF_ROOT="$SCRATCH/root" "$BIN" check C$i --tier quick 2>&1 | tail -1
done
"$LLVM/llvm-profdata" merge -sparse "$SCRATCH"/prof/*.profraw -o "$SCRATCH/all.profdata"
rm -f "$SCRATCH"/prof/*.profraw
SRC=$(ls -d /repo/*/src | tr '\n' ' ')
"$LLVM/llvm-cov" report "$BIN" -instr-profile="$SCRATCH/all.profdata" $SRC 2>/dev/null | tail -40
"$LLVM/llvm-cov" show "$BIN" -instr-profile="$SCRATCH/all.profdata" $SRC -show-line-counts-or-regions -Xdemangler=rustfilt 2>/dev/null > "$SCRATCH/show.txt" || \
"$LLVM/llvm-cov" show "$BIN" -instr-profile="$SCRATCH/all.profdata" $SRC -show-line-counts-or-regions > "$SCRATCH/show.txt" 2>/dev/null
echo "annotated sources: $SCRATCH/show.txt"
