#!/bin/sh
# Runs every registered check of one tier, one after the other; prints one line per check.
#   tools/run_all.sh quick|thorough [ids...]
cd "$(dirname "$0")/.." || exit 2
TIER="${1:-quick}"; shift 2>/dev/null
IDS="$*"
[ -n "$IDS" ] || IDS="C01 C02 C03 C04 C05 C06 C07 C08 C09 C10 C11 C12 C13 C14 C15 C16 C17 C18 C19 C20"
rc=0
for id in $IDS; do
    start=$(date +%s)
    out=$(./check "$id" --tier "$TIER" 2>&1); code=$?
    end=$(date +%s)
    echo "$id exit=$code $((end-start))s :: $(echo "$out" | grep -E "^$id \[|VIOLATION|INCONCLUSIVE|KNOWN-FINDING" | tr '\n' ' ')"
    [ $code -ne 0 ] && rc=$code
done
exit $rc
