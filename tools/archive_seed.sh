#!/bin/bash
# tools/archive_seed.sh <round prefix> <round text> <seed base dir> <ID> <name> <crate> <needs> <missed note> <checks...>
# Evaluates a seeded change with tools/try_seed.sh and files it under /verif/seeded/<prefix>-<ID>-<name>/ with the
# replay files of the checks that reported it copied into the regression corpus.
PREFIX=$1; ROUND=$2; BASE=$3; ID=$4; NAME=$5; CRATE=$6; NEEDS=$7; MISSED=$8; shift 8
D=/verif/seeded/$PREFIX-$ID-$NAME
mkdir -p $D
cp $BASE/$ID/out/patch.diff $BASE/$ID/out/demo.rs $BASE/$ID/out/notes.md $D/ 2>/dev/null
# SEED_EVAL_LOG=<file>: file the output of an evaluation already made with tools/try_seed.sh instead of running it again.
if [ -n "${SEED_EVAL_LOG:-}" ]; then OUT=$(cat "$SEED_EVAL_LOG"); else OUT=$(cd /verif && tools/try_seed.sh $BASE/$ID/out $CRATE "$@" 2>&1); fi
echo "$OUT" | grep -E "check|demo|tests"
echo "$OUT" > $D/evaluation.log
caught=(); replays=()
while read -r line; do
  if [[ $line =~ ^check\ (C[0-9]+):\ exit\ 1 ]]; then cid=${BASH_REMATCH[1]}; caught+=("$cid"); last=$cid; fi
  if [[ $line =~ ^replay:\ (.*)$ ]] && [ -n "${last:-}" ]; then
    src=${BASH_REMATCH[1]}
    if [ -f "$src" ] && [[ $src == *.json ]]; then mkdir -p /verif/replays/regress/$last; cp "$src" /verif/replays/regress/$last/seed-$PREFIX-$ID-$NAME.json; replays+=("/verif/replays/regress/$last/seed-$PREFIX-$ID-$NAME.json"); fi
    last=
  fi
done < <(echo "$OUT" | sed 's/^ *//')
python3 - "$D" "$PREFIX" "$ROUND" "$ID" "$NAME" "$CRATE" "$NEEDS" "$MISSED" "$(IFS=,; echo "$*")" "$(IFS=,; echo "${caught[*]}")" "$(IFS=,; echo "${replays[*]}")" <<'PY'
import json,sys
d,prefix,round_,id_,name,crate,needs,missed,checks,caught,replays=sys.argv[1:12]
meta={"name":f"{prefix}-{id_}-{name}","round":round_,"breaks_property":id_,"needs_to_manifest":needs,
"origin":"written by a sub-agent that saw only the property text and its own scratch worktree of /repo",
"what_was_run":["tools/try_seed.sh: demo on the clean tree (pass) -> git apply patch.diff -> cargo test --workspace --no-fail-fast --offline (all pass) -> demo with the change (fails) -> ./check <ids> --tier quick -> git checkout -- ."],
"demo_crate":crate,"quick_checks_run":[c for c in checks.split(',') if c],"caught_by_quick_checks":[c for c in caught.split(',') if c],"regression_replays":[r for r in replays.split(',') if r],"missed_at_first":missed}
json.dump(meta,open(d+"/meta.json","w"),indent=1)
PY
