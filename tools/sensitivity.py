#!/usr/bin/env python3
"""Sensitivity trials: apply a small deliberate mutation to /repo's working
tree, run the listed quick checks, restore the tree, and report which checks
raised an alarm.  A check that stays green against a mutation listed for it is
decoration.

    tools/sensitivity.py list
    tools/sensitivity.py run <name> [<name> ...]      (or: run all / run C07)

Every mutation is a literal (file, old, new) replacement; the old text must
occur exactly once.  /repo is always restored with `git checkout -- .`
(the script refuses to start on a dirty tree).
"""
import subprocess, sys, os, json, time

REPO = "/repo"
START = time.time()

# name: (file, old, new, [properties expected to notice])
M = {}

def mut(name, file, old, new, props):
    assert name not in M, name
    M[name] = (file, old, new, props)

# ---- sliding_deque -------------------------------------------------------
mut("sd-slide-ge", "sliding_deque/src/sliding_deque.rs",
    "if (self.consumed_prefix > self.container.slice().len() / 2) | self.is_empty() {",
    "if (self.consumed_prefix >= self.container.slice().len() / 2 + 2) | self.is_empty() {",
    ["C15"])
mut("sd-advance-no-min", "sliding_deque/src/sliding_deque.rs",
    "            .saturating_sub(self.consumed_prefix)\n            .min(count);\n\n        self.consumed_prefix += to_consume;",
    "            .saturating_sub(self.consumed_prefix)\n            .min(count.max(1));\n\n        self.consumed_prefix += to_consume;",
    ["C15"])
mut("sd-popback-no-slide", "sliding_deque/src/sliding_deque.rs",
    "        // more than half of it.\n        self.maybe_slide();\n",
    "        // more than half of it.\n",
    ["C15", "C16"])
mut("sorted-cleanup-front-one-more", "sliding_deque/src/sorted_deque.rs",
    "                to_drop = idx;\n                break;",
    "                to_drop = idx + (idx > 1) as usize;\n                break;",
    ["C16"])
mut("sorted-find-tombstone", "sliding_deque/src/sorted_deque.rs",
    "        if self.marker.is_erased(item) {\n            None\n        } else {\n            Some(item)\n        }",
    "        if self.marker.is_erased(item) & (idx == 0) {\n            None\n        } else {\n            Some(item)\n        }",
    ["C16"])
mut("sorted-remove-len", "sliding_deque/src/sorted_deque.rs",
    "        } else if idx == len - 1 {\n            self.pop_last()",
    "        } else if idx + 2 == len {\n            self.pop_last()",
    ["C16"])

# ---- hcobs encoder ---------------------------------------------------------
mut("enc-no-holdback", "hcobs/src/encoder.rs",
    "                self.maybe_mid_stuff = input[input.len() - 1] == STUFF_SEQUENCE[0];",
    "                self.maybe_mid_stuff = false & (input[input.len() - 1] == STUFF_SEQUENCE[0]);",
    ["C02", "C07"])  # the round trip (C01) legitimately survives this one
mut("enc-first-limit-251", "hcobs/src/lib.rs",
    "    max_initial_size: unsafe { NonZeroUsize::new_unchecked(RADIX - 1) },\n    max_subsequent_size: unsafe { NonZeroUsize::new_unchecked((RADIX * RADIX) - 1) },\n};\n\n#[cfg(test)]",
    "    max_initial_size: unsafe { NonZeroUsize::new_unchecked(RADIX - 2) },\n    max_subsequent_size: unsafe { NonZeroUsize::new_unchecked((RADIX * RADIX) - 1) },\n};\n\n#[cfg(test)]",
    ["C07"])
mut("enc-later-limit-64007", "hcobs/src/lib.rs",
    "    max_subsequent_size: unsafe { NonZeroUsize::new_unchecked((RADIX * RADIX) - 1) },\n};\n\n#[cfg(test)]",
    "    max_subsequent_size: unsafe { NonZeroUsize::new_unchecked((RADIX * RADIX) - 2) },\n};\n\n#[cfg(test)]",
    ["C07"])
mut("enc-search-untruncated", "hcobs/src/encoder.rs",
    "            let remaining = self.max_chunk_size.get() - self.current_chunk_size;\n            input = &input[..input.len().min(remaining)];",
    "            let remaining = self.max_chunk_size.get() - self.current_chunk_size;\n            input = &input[..input.len().min(remaining + 1)];",
    ["C01", "C02", "C07"])
mut("enc-copy-path-only", "hcobs/src/encoder.rs",
    "    fn copy(&mut self, iovec: &mut OwningIovec<'_>, payload: &[u8]) {\n        if payload.is_empty() {\n            return;\n        }\n\n        iovec.push_copy(payload);",
    "    fn copy(&mut self, iovec: &mut OwningIovec<'_>, payload: &[u8]) {\n        if payload.is_empty() {\n            return;\n        }\n\n        iovec.push_copy(if payload.len() == 7 { &payload[..6] } else { payload });\n        if payload.len() == 7 { iovec.push_copy(&[0u8]); }",
    ["C01", "C02", "C07"])

# ---- hcobs decoder ---------------------------------------------------------
mut("dec-accept-253", "hcobs/src/decoder.rs",
    "        if initial_byte as usize >= RADIX {",
    "        if initial_byte as usize > RADIX {",
    ["C07"])
mut("dec-size-ge", "hcobs/src/decoder.rs",
    "        let terminate_with_stuff_sequence = chunk_size < max_subsequent_size;",
    "        let terminate_with_stuff_sequence = chunk_size + 1 < max_subsequent_size;",
    ["C01", "C07"])
mut("dec-terminate-midheader", "hcobs/src/decoder.rs",
    "            _ => Err(DecodingError::CutShort),",
    "            DecoderState::MidHeader(_) => Ok(()),\n            _ => Err(DecodingError::CutShort),",
    ["C07"])
mut("dec-forget-implicit-stuff-first", "hcobs/src/decoder.rs",
    "        let terminate_with_stuff_sequence = chunk_size < max_initial_size;\n        if chunk_size > 0 {",
    "        let terminate_with_stuff_sequence = (chunk_size < max_initial_size) & (chunk_size != 5);\n        if chunk_size > 0 {",
    ["C01", "C07"])
mut("dec-update-miscount", "hcobs/src/decoder.rs",
    "        if bytes_consumed < self.remaining.get() as usize {",
    "        if bytes_consumed + ((bytes_consumed == 3) as usize) < self.remaining.get() as usize {",
    ["C01", "C07"])
mut("dec-terminate-full-chunk", "hcobs/src/decoder.rs",
    "                    Err(DecodingError::MissingImplicitTerminator)",
    "                    Ok(())",
    ["C07"])

# ---- hcobs stream reader / chunker ----------------------------------------
mut("chunker-no-fe-holdback", "hcobs/src/stream_reader.rs",
    "        } else if *self.buf.slice().last().unwrap() == STUFF_SEQUENCE[0] {\n            // Split just before the last byte if it could be part of a stuff sequence\n            self.buf.slice().len() - 1",
    "        } else if *self.buf.slice().last().unwrap() == STUFF_SEQUENCE[0] && self.buf.slice().len() < 3 {\n            // Split just before the last byte if it could be part of a stuff sequence\n            self.buf.slice().len() - 1",
    ["C06", "C08"])
mut("chunker-refill-lt1", "hcobs/src/stream_reader.rs",
    "        while self.buf.slice().len() < 2 {",
    "        while self.buf.slice().len() < 1 {",
    ["C06", "C08"])
mut("chunker-block-min-1", "hcobs/src/stream_reader.rs",
    "        let io_block_size = io_block_size.max(STUFF_SEQUENCE.len());",
    "        let io_block_size = io_block_size.max(1);",
    ["C06", "C08"])
mut("chunker-offset-early", "hcobs/src/stream_reader.rs",
    "        self.offset += prefix.slice().len() as u64;\n        Ok(Chunk::Data((self.offset, prefix)))",
    "        self.offset += prefix.slice().len() as u64 + (self.buf.slice().len() == 1) as u64;\n        Ok(Chunk::Data((self.offset, prefix)))",
    ["C06", "C08"])
mut("reader-range-end-stale", "hcobs/src/stream_reader.rs",
    "                        range.end = offset;",
    "                        if range.end == range.start { range.end = offset; }",
    ["C06"])
mut("reader-limit-gt", "hcobs/src/stream_reader.rs",
    "            if range.start >= limit_offset {",
    "            if range.start > limit_offset {",
    ["C06"])
mut("reader-size-ge", "hcobs/src/stream_reader.rs",
    "            } else if iovec.total_size() > max_record_size {",
    "            } else if iovec.total_size() >= max_record_size {",
    ["C06"])
mut("reader-no-clear", "hcobs/src/stream_reader.rs",
    "            self.iovec.clear();\n            let mut decoder",
    "            if self.iovec.total_size() > 2 { self.iovec.clear(); }\n            let mut decoder",
    ["C06"])
mut("reader-skip-judged-late", "hcobs/src/stream_reader.rs",
    "                    StreamAction::SkipRecord => state = State::SkipRecord,",
    "                    StreamAction::SkipRecord => { if range.end - range.start > 3 { state = State::SkipRecord } }",
    ["C06"])
mut("reader-last-sentinel", "hcobs/src/stream_reader.rs",
    "                        self.last_sentinel_offset = offset - (STUFF_SEQUENCE.len() as u64);",
    "                        if state != State::SkipSentinel { self.last_sentinel_offset = offset - (STUFF_SEQUENCE.len() as u64); }",
    ["C06"])

# ---- arena reads -------------------------------------------------------------
mut("readn-error-despite-bytes", "owning_iovec/src/byte_arena/mod.rs",
    "        match (got, err) {\n            (0, Some(e)) => Err(e),\n            _ => Ok(got),\n        }",
    "        match (got, err) {\n            (0, Some(e)) => Err(e),\n            (1, Some(e)) if e.kind() != std::io::ErrorKind::Interrupted => Err(e),\n            _ => Ok(got),\n        }",
    ["C17"])
mut("readn-eintr-not-counted", "owning_iovec/src/byte_arena/mod.rs",
    "        for _ in 0..max_attempts.get() {\n            let ret = src.read(&mut slice[got..]);",
    "        let mut budget = max_attempts.get();\n        while budget > 0 {\n            let ret = src.read(&mut slice[got..]);\n            if !matches!(&ret, Err(e) if e.kind() == std::io::ErrorKind::Interrupted) { budget -= 1; } else if budget > 3 { budget -= 1; }",
    ["C17"])
mut("readn-remainder-overrelease", "owning_iovec/src/byte_arena/mod.rs",
    "                let remainder = ioslice::make_ioslice(unsafe { base.add(got) }, count - got);",
    "                let over = ((got == 3) & (count > 3)) as usize;\n                let remainder = ioslice::make_ioslice(unsafe { base.add(got - over) }, count - got + over);",
    ["C17"])
mut("readn-eof-keeps-error", "owning_iovec/src/byte_arena/mod.rs",
    "                        // EOF: bail out with Ok(len).\n                        err = None;",
    "                        // EOF: bail out with Ok(len).",
    ["C17"])
mut("readn-continue-after-error", "owning_iovec/src/byte_arena/mod.rs",
    "                    if kind != std::io::ErrorKind::Interrupted {",
    "                    if kind != std::io::ErrorKind::Interrupted && kind != std::io::ErrorKind::TimedOut {",
    ["C17"])
mut("encode-read-drops-anchor-early", "hcobs/src/lib.rs",
    "        let anchored_slice = self.read_n(reader, count, attempts)?;\n        let ret = anchored_slice.slice().len();\n\n        self.encode_anchored(anchored_slice);\n        Ok(ret)",
    "        let anchored_slice = self.read_n(reader, count, attempts)?;\n        let ret = anchored_slice.slice().len();\n        if ret == 1 && count > 2 { return Ok(ret); }\n\n        self.encode_anchored(anchored_slice);\n        Ok(ret)",
    ["C17", "C01"])

# ---- rough_tlv ------------------------------------------------------------
mut("tlv-unstable-sort", "rough_tlv/src/encoder.rs",
    "    pub fn new(mut elements: Vec<(Tag, Value)>) -> Result<Self, EncodingError> {\n        elements.sort_by_key(|x| x.0);",
    "    pub fn new(mut elements: Vec<(Tag, Value)>) -> Result<Self, EncodingError> {\n        elements.reverse();\n        elements.sort_by_key(|x| x.0);",
    ["C11"])
mut("tlv-offsets-after-add", "rough_tlv/src/encoder.rs",
    "                    Some(sum) => {\n                        sink.append_copy(&sum.to_le_bytes());\n                        let sum = sum.saturating_add(encoded_len as u32);",
    "                    Some(sum) => {\n                        let sum = sum.saturating_add(encoded_len as u32);\n                        sink.append_copy(&sum.to_le_bytes());",
    ["C11"])
mut("tlv-compute-len-forgets-offsets", "rough_tlv/src/encoder.rs",
    "        ret = ret.saturating_add(elements.len().saturating_sub(1).saturating_mul(4));",
    "        ret = ret.saturating_add(elements.len().saturating_sub(2).saturating_mul(4));",
    ["C11"])
# (a mutation of the per-value limit is equivalent: any value that long also exceeds the total limit)
mut("tlv-total-limit-off-by-one", "rough_tlv/src/encoder.rs",
    "        if ret > i32::MAX as usize {\n            // This also handles saturation.",
    "        if ret > i32::MAX as usize + 1 {\n            // This also handles saturation.",
    ["C11"])
mut("tlv-sorted-check-strict", "rough_tlv/src/encoder.rs",
    "            if cur.0 > next.0 {\n                return Err(EncodingError::NonMonotonicTags((",
    "            if cur.0 >= next.0 {\n                return Err(EncodingError::NonMonotonicTags((",
    ["C11"])
mut("tlv-cow-str-owned-borrow", "rough_tlv/src/encoder.rs",
    "            Cow::Owned(value) => sink.append_copy(value.as_bytes()),\n        };\n    }\n\n    fn rough_tlv_len(&self) -> usize {\n        self.as_bytes().len()",
    "            Cow::Owned(value) => sink.append_copy(&value.as_bytes()[..value.len().min(9)]),\n        };\n    }\n\n    fn rough_tlv_len(&self) -> usize {\n        self.as_bytes().len()",
    ["C11"])
mut("view-offsets-strict", "rough_tlv/src/decoder.rs",
    "                if left > right {\n                    return Some((idx, left.value(), right.value()));",
    "                if left >= right {\n                    return Some((idx, left.value(), right.value()));",
    ["C12", "C11"])
mut("view-header-8n-4", "rough_tlv/src/decoder.rs",
    "        if 8 * num_values > data.len() as u64 {",
    "        if 8 * num_values > data.len() as u64 + 4 {",
    ["C12"])
mut("view-last-offset-ge", "rough_tlv/src/decoder.rs",
    "            if total > ret.storage.len() as u64 {",
    "            if total > ret.storage.len() as u64 + 1 {",
    ["C12"])
mut("view-get-value-no-bound", "rough_tlv/src/decoder.rs",
    "        if index >= self.len() {\n            return None;\n        }\n",
    "",
    ["C12"])
mut("view-find-first-only", "rough_tlv/src/decoder.rs",
    "            this.tags().binary_search(&wanted).ok()",
    "            this.tags().binary_search(&wanted).ok().map(|i| i.saturating_sub((i > 2) as usize))",
    ["C12", "C11"])

# ---- vouched_time window ---------------------------------------------------
mut("vt-swap-constants", "vouched_time/src/lib.rs",
    "        if (-(MAX_BACKWARD_DISCREPANCY_MS as i128)..=(MAX_FORWARD_DISCREPANCY_MS as i128))",
    "        if (-(MAX_FORWARD_DISCREPANCY_MS as i128)..=(MAX_BACKWARD_DISCREPANCY_MS as i128))",
    ["C14"])
mut("vt-upper-exclusive", "vouched_time/src/lib.rs",
    "        if (-(MAX_BACKWARD_DISCREPANCY_MS as i128)..=(MAX_FORWARD_DISCREPANCY_MS as i128))",
    "        if (-(MAX_BACKWARD_DISCREPANCY_MS as i128)..(MAX_FORWARD_DISCREPANCY_MS as i128))",
    ["C14"])
mut("vt-lower-off-by-one", "vouched_time/src/lib.rs",
    "        if (-(MAX_BACKWARD_DISCREPANCY_MS as i128)..=(MAX_FORWARD_DISCREPANCY_MS as i128))",
    "        if (-(MAX_BACKWARD_DISCREPANCY_MS as i128) - 1..=(MAX_FORWARD_DISCREPANCY_MS as i128))",
    ["C14"])
mut("vt-no-epoch-test", "vouched_time/src/lib.rs",
    "        if local_time_ms < 0 {\n            return Err(other(\"local_time is before the Unix epoch\"));\n        }",
    "        if local_time_ms < -59_000 {\n            return Err(other(\"local_time is before the Unix epoch\"));\n        }\n        let local_time_ms = local_time_ms.max(0);",
    ["C14"])
mut("vt-trunc-division", "vouched_time/src/lib.rs",
    "                .div_euclid(1_000_000),",
    "                / 1_000_000,",
    ["C14"])
mut("vt-wrapping-window", "vouched_time/src/lib.rs",
    "        let discrepancy_ms = (local_time_ms as i128) - (base_time_ms as i128);",
    "        let discrepancy_ms = (local_time_ms.wrapping_sub(base_time_ms) as i64) as i128;",
    ["C14"])
mut("vt-now-uses-stale-time", "vouched_time/src/lib.rs",
    "        let (base_time_ms, voucher) = base_time_provider(now)?;\n        VouchedTime::new(\n            time::PrimitiveDateTime::new(now.date(), now.time()),",
    "        let (base_time_ms, voucher) = base_time_provider(now)?;\n        let now = now + time::Duration::milliseconds(4);\n        VouchedTime::new(\n            time::PrimitiveDateTime::new(now.date(), now.time()),",
    ["C14"])
mut("vt-check-skips-voucher", "vouched_time/src/lib.rs",
    "        if !BASE_TIME_CHECK.check(base_time_ms, voucher) {",
    "        if !BASE_TIME_CHECK.check(base_time_ms, voucher) && base_time_ms % 7 != 3 {",
    ["C14"])

# ---- AtomicBaseTime ---------------------------------------------------------
mut("abt-commit-relaxed", "vouched_time/src/atomic_base_time.rs",
    "        self.sequence.store(next, Ordering::Release); // Commit the write",
    "        self.sequence.store(next, Ordering::Relaxed); // Commit the write",
    ["C13"])
mut("abt-slot-loads-relaxed", "vouched_time/src/atomic_base_time.rs",
    "        let bits = self.voucher.load(Ordering::Acquire);\n        let base_time_ms = self.base_time_ms.load(Ordering::Acquire);",
    "        let bits = self.voucher.load(Ordering::Relaxed);\n        let base_time_ms = self.base_time_ms.load(Ordering::Relaxed);",
    ["C13"])
mut("abt-slot-stores-relaxed", "vouched_time/src/atomic_base_time.rs",
    "        self.base_time_ms.store(base_time_ms, Ordering::Release);\n        self.voucher.store(\n            unsafe { TransmuteVoucher { voucher }.bits },\n            Ordering::Release,\n        );",
    "        self.base_time_ms.store(base_time_ms, Ordering::Relaxed);\n        self.voucher.store(\n            unsafe { TransmuteVoucher { voucher }.bits },\n            Ordering::Relaxed,\n        );",
    ["C13"])
mut("abt-first-seq-load-relaxed", "vouched_time/src/atomic_base_time.rs",
    "        let mut sequence = self.sequence.load(Ordering::Acquire);",
    "        let mut sequence = self.sequence.load(Ordering::Relaxed);",
    ["C13"])
mut("abt-second-seq-load-relaxed", "vouched_time/src/atomic_base_time.rs",
    "            let next_sequence = self.sequence.load(Ordering::Acquire);",
    "            let next_sequence = self.sequence.load(Ordering::Relaxed);",
    ["C13"])
mut("abt-no-validation", "vouched_time/src/atomic_base_time.rs",
    "            if sequence == next_sequence {",
    "            if sequence <= next_sequence {",
    ["C13"])
mut("abt-writes-stable-slot", "vouched_time/src/atomic_base_time.rs",
    "        let idx = (next as usize) % self.snapshots.len();\n\n        self.snapshots[idx].update(update.0, update.1);",
    "        let idx = (current as usize) % self.snapshots.len();\n\n        self.snapshots[idx].update(update.0, update.1);\n        let idx = (next as usize) % self.snapshots.len();\n        self.snapshots[idx].update(update.0, update.1);",
    ["C13"])
mut("abt-no-monotone-filter", "vouched_time/src/atomic_base_time.rs",
    "        if update.0 < current_base_time_ms {",
    "        if update.0 < current_base_time_ms && update.0 == 1 {",
    ["C13"])
mut("abt-seq-bumped-first", "vouched_time/src/atomic_base_time.rs",
    "        self.snapshots[idx].update(update.0, update.1);\n        self.sequence.store(next, Ordering::Release); // Commit the write",
    "        self.sequence.store(next, Ordering::Release); // Commit the write\n        self.snapshots[idx].update(update.0, update.1);",
    ["C13"])
mut("abt-filter-reads-other-slot", "vouched_time/src/atomic_base_time.rs",
    "        let current_base_time_ms = self.snapshots[(current as usize) % self.snapshots.len()]",
    "        let current_base_time_ms = self.snapshots[(current as usize + (current > 2) as usize) % self.snapshots.len()]",
    ["C13"])
mut("abt-snapshot-takes-lock", "vouched_time/src/atomic_base_time.rs",
    "        let mut sequence = self.sequence.load(Ordering::Acquire);\n\n        loop {",
    "        let _guard = self.lock.lock();\n        let mut sequence = self.sequence.load(Ordering::Acquire);\n\n        loop {",
    ["C18"])
mut("abt-try-update-blocks", "vouched_time/src/atomic_base_time.rs",
    "            Err(WouldBlock) => return false,\n        };",
    "            Err(WouldBlock) => match self.lock.lock() { Ok(g) => g, Err(_) => return false },\n        };",
    ["C18"])
mut("abt-snapshot-spins-on-odd", "vouched_time/src/atomic_base_time.rs",
    "            let next_sequence = self.sequence.load(Ordering::Acquire);\n            if sequence == next_sequence {",
    "            let next_sequence = self.sequence.load(Ordering::Acquire);\n            if self.lock.try_lock().is_err() { sequence = next_sequence; continue; }\n            if sequence == next_sequence {",
    ["C18"])
mut("abt-snapshot-double-checks", "vouched_time/src/atomic_base_time.rs",
    "            if sequence == next_sequence {\n                // We got a good read, transmute!",
    "            if sequence == next_sequence && sequence == self.sequence.load(Ordering::Acquire) {\n                // We got a good read, transmute!",
    ["C18"])
mut("abt-try-update-ignores-held-lock-result", "vouched_time/src/atomic_base_time.rs",
    "            Err(Poisoned(_)) => {\n                self.lock.clear_poison();\n                return false;\n            }",
    "            Err(Poisoned(_)) => {\n                self.lock.clear_poison();\n                return self.try_update(update);\n            }",
    [])

# ---- nfs_voucher --------------------------------------------------------------
mut("nfs-no-device-test", "vouched_time/src/nfs_voucher.rs",
    "    if !TRUSTED_PATHS.read().unwrap().contains_key(&dev) && options.extra_device != Some(dev) {",
    "    if TRUSTED_PATHS.read().unwrap().is_empty() && options.extra_device != Some(dev) {",
    ["C19"])
mut("nfs-untrusted-reports-none-but-updates", "vouched_time/src/nfs_voucher.rs",
    "    if !TRUSTED_PATHS.read().unwrap().contains_key(&dev) && options.extra_device != Some(dev) {\n        return Ok((stat, None));\n    }",
    "    if !TRUSTED_PATHS.read().unwrap().contains_key(&dev) && options.extra_device != Some(dev) {\n        if !TRUSTED_PATHS.read().unwrap().is_empty() {\n            let ms = (stat.ctime() as u64).saturating_mul(1000);\n            let _ = BASE_TIME.try_update((ms, VOUCH_PARAMS.vouch(ms)));\n        }\n        return Ok((stat, None));\n    }",
    ["C19"])
mut("nfs-mtime-instead-of-ctime", "vouched_time/src/nfs_voucher.rs",
    "    let millis_since_epoch = (stat.ctime() as u64)\n        .saturating_mul(1000)\n        .saturating_add((stat.ctime_nsec() as u64) / 1_000_000);",
    "    let millis_since_epoch = (stat.mtime() as u64)\n        .saturating_mul(1000)\n        .saturating_add((stat.mtime_nsec() as u64) / 1_000_000);",
    ["C19"])
mut("nfs-voucher-for-seconds", "vouched_time/src/nfs_voucher.rs",
    "    let update = (millis_since_epoch, VOUCH_PARAMS.vouch(millis_since_epoch));",
    "    let update = (millis_since_epoch, VOUCH_PARAMS.vouch(millis_since_epoch - millis_since_epoch % 1000 * ((millis_since_epoch % 7 == 0) as u64)));",
    ["C19"])
mut("nfs-add-trusted-before-check", "vouched_time/src/nfs_voucher.rs",
    "        file.set_times(std::fs::FileTimes::new().set_accessed(std::time::SystemTime::now()))?;",
    "        file.set_times(std::fs::FileTimes::new().set_accessed(std::time::SystemTime::now()).set_modified(std::time::SystemTime::UNIX_EPOCH + std::time::Duration::from_secs(4_000_000_000)))?;",
    [])
mut("abt-filter-removed-for-nfs", "vouched_time/src/atomic_base_time.rs",
    "        if update.0 < current_base_time_ms {\n            // The update is older than the current value; skip it.\n            return false;\n        }",
    "        if update.0 < current_base_time_ms && update.0 < 1_000_000 {\n            // The update is older than the current value; skip it.\n            return false;\n        }",
    ["C19"])

# ---- streaming / iovec behaviour seen through the codecs -------------------
mut("iovec-consume-bytes-forgets-size", "owning_iovec/src/global_deque.rs",
    "                *slice = IoSlice::new(new_slice);\n                self.consumed_size += num_to_consume as u64;",
    "                *slice = IoSlice::new(new_slice);\n                self.consumed_size += (num_to_consume as u64).min(300);",
    ["C03"])
# iovec-advance-clamp-gt -- equivalent: when a slice is exactly as long as the remaining count both branches end with stable_count == count
mut("iovec-merge-keeps-anchor-count", "owning_iovec/src/global_deque.rs",
    "            let remainder = anchor.decrement_count(1);\n            // We can always decrement by 1: `count >= 2`.\n            assert_eq!(remainder, 0);",
    "            let remainder = 0;\n            // We can always decrement by 1: `count >= 2`.\n            assert_eq!(remainder, 0);",
    ["C03", "C05", "C10"])
mut("iovec-clear-keeps-logical-size", "owning_iovec/src/global_deque.rs",
    "        self.anchors.clear();\n        self.logical_size = 0;\n        self.consumed_size = 0;",
    "        self.anchors.clear();\n        self.logical_size = self.consumed_size;\n        self.consumed_size = 0;",
    ["C03"])
mut("iovec-begin-before-merge", "owning_iovec/src/implementation.rs",
    "            begin: ioslice_len(self.slices.last_slice().unwrap()) - pattern_size,",
    "            begin: (ioslice_len(self.slices.last_slice().unwrap()) - pattern_size).min(300),",
    ["C04", "C03"])
mut("iovec-backfill-physical-index", "owning_iovec/src/global_deque.rs",
    "        let index = index\n            .wrapping_sub(self.consumed_slices)",
    "        let index = index\n            .wrapping_sub(self.consumed_slices.min(2))",
    ["C04", "C03"])
mut("iovec-take-leaves-backrefs", "owning_iovec/src/implementation.rs",
    "        let mut ret = Default::default();\n        std::mem::swap(self, &mut ret);\n        ret",
    "        let mut ret: Self = Default::default();\n        std::mem::swap(self, &mut ret);\n        std::mem::swap(&mut self.backrefs, &mut ret.backrefs);\n        ret",
    ["C20", "C03"])
# iovec-push-appendable-ignores-islast -- equivalent for the listed properties: only changes whether a medium slice is copied or borrowed
# arena-try-join-no-containment -- not observable here: needs two separately allocated regions to be exactly adjacent in memory, which the allocator never produces (out of reach, DESIGN.md section 7)
mut("anchors-popped-at-count-1", "owning_iovec/src/global_deque.rs",
    "            num_to_drain = front.decrement_count(num_to_drain);\n            if front.count() == 0 {",
    "            num_to_drain = front.decrement_count(num_to_drain);\n            if front.count() <= 1 {",
    ["C05", "C03"])
mut("encode-anchored-anchor-first", "hcobs/src/lib.rs",
    "        self.encode(slice);\n        self.iovec.push_anchor(anchor);\n    }",
    "        self.iovec.push_anchor(anchor);\n        self.encode(slice);\n    }",
    ["C05", "C01"])
mut("consume-zero-anchor-not-popped", "owning_iovec/src/global_deque.rs",
    "        // Drop any zero-count anchor at the front.\n        while let Some(anchor) = self.anchors.front() {\n            if anchor.count() > 0 {\n                break;\n            }\n\n            self.anchors.pop_front();\n        }",
    "        // Drop any zero-count anchor at the front.\n        while let Some(anchor) = self.anchors.front() {\n            if anchor.count() > 0 || self.slices.is_empty() {\n                break;\n            }\n\n            self.anchors.pop_front();\n        }",
    ["C10", "C03"])
mut("arena-ensure-keeps-old-cache", "owning_iovec/src/byte_arena/mod.rs",
    "            // Drop the old one before allocating a new cache.\n            self.cache = None;",
    "            // Drop the old one before allocating a new cache.\n            if initial_size > 8192 { std::mem::forget(self.cache.take()); }\n            self.cache = None;",
    ["C10"])
mut("chunker-leaks-buf-on-eof", "hcobs/src/stream_reader.rs",
    "                if buf.slice().is_empty() {\n                    return Ok(Chunk::Eof);",
    "                if buf.slice().is_empty() {\n                    std::mem::forget(arena.read_n(&[1u8, 2][..], 2, NonZeroUsize::MIN));\n                    return Ok(Chunk::Eof);",
    ["C10"])
mut("arena-clone-shares-nothing-but-leaks", "owning_iovec/src/byte_arena/mod.rs",
    "        // Can't clone the `AllocCache`.\n        Default::default()",
    "        // Can't clone the `AllocCache`.\n        if self.remaining() > 4000 { std::mem::forget(self.cache.as_ref().map(|c| c.range())); let mut a = ByteArena::default(); a.ensure_capacity(16); std::mem::forget(a); }\n        Default::default()",
    ["C10"])
mut("iovec-stable-prefix-last-backref", "owning_iovec/src/implementation.rs",
    "            .backrefs\n            .first()\n            .map(|backref| backref.1.unwrap().slice_index);",
    "            .backrefs\n            .last()\n            .map(|backref| backref.1.unwrap().slice_index);",
    ["C04"])

def sh(cmd, timeout=None, **kw):
    """Runs a shell command in its own process group; on timeout the whole group is killed."""
    import signal
    p = subprocess.Popen(cmd, shell=True, stdout=subprocess.PIPE, stderr=subprocess.PIPE, text=True, start_new_session=True, **kw)
    try:
        out, err = p.communicate(timeout=timeout)
    except subprocess.TimeoutExpired:
        os.killpg(p.pid, signal.SIGKILL)
        out, err = p.communicate()
        return subprocess.CompletedProcess(cmd, 124, out, err)
    return subprocess.CompletedProcess(cmd, p.returncode, out, err)

def clean():
    return sh("git -C /repo status --porcelain").stdout.strip() == ""

def apply(name):
    file, old, new, _ = M[name]
    path = os.path.join(REPO, file)
    text = open(path).read()
    n = text.count(old)
    if n != 1:
        raise SystemExit(f"{name}: old text occurs {n} times in {file}")
    open(path, "w").write(text.replace(old, new))

def restore():
    sh("git -C /repo checkout -- .")

def run_one(name, only=None):
    file, old, new, props = M[name]
    if only:
        props = [p for p in props if p in only] or props
    apply(name)
    results = {}
    try:
        # The unit tests must still pass for the mutation to count as "realistic".
        crate = file.split("/")[0]
        t = sh(f"cd /repo && cargo test --offline -p {crate} 2>&1 | grep -E '^test result|FAILED' | head -5")
        tests_ok = "FAILED" not in t.stdout and "failed" not in t.stdout.replace("0 failed", "")
        for p in props:
            t0 = time.time()
            r = sh(f"cd /verif && ./check {p} --tier quick", timeout=600)
            lines = [l for l in r.stdout.splitlines() if l.startswith("VIOLATION") or l.strip().startswith("signature")]
            results[p] = (r.returncode, round(time.time() - t0, 1), lines[:2])
    finally:
        restore()
    return tests_ok, results

def main():
    if len(sys.argv) < 2 or sys.argv[1] == "list":
        for k, v in M.items():
            print(f"{k:36s} {v[0]:44s} {','.join(v[3])}")
        return
    if not clean():
        raise SystemExit("/repo working tree is dirty; refusing to run")
    names = sys.argv[2:]
    only = None
    if names == ["all"]:
        names = list(M)
    elif len(names) == 1 and names[0].startswith("C") and names[0] not in M:
        only = [names[0]]
        names = [k for k, v in M.items() if names[0] in v[3]]
    summary = {}
    for name in names:
        tests_ok, results = run_one(name, only)
        caught = [p for p, (rc, _, _) in results.items() if rc == 1]
        missed = [p for p, (rc, _, _) in results.items() if rc == 0]
        other = [p for p, (rc, _, _) in results.items() if rc not in (0, 1)]
        print(f"{name}: unit tests {'pass' if tests_ok else 'FAIL'}; caught by {caught}; MISSED by {missed}; inconclusive {other}")
        for p, (rc, secs, lines) in results.items():
            for l in lines:
                print(f"    {p} ({secs}s): {l.strip()}")
        summary[name] = {"tests_pass": tests_ok, "caught": caught, "missed": missed, "inconclusive": other}
    # Remove the replay files produced by the trials (top level of replays/ only;
    # the committed regression corpus lives in replays/regress/).
    for f in os.listdir("/verif/replays"):
        path = os.path.join("/verif/replays", f)
        if os.path.isfile(path) and os.path.getmtime(path) >= START:
            os.remove(path)
    print(json.dumps(summary))

if __name__ == "__main__":
    main()
