#!/bin/bash
# Re-runs, for every archived seeded change, the first quick check that reported it (no unit tests,
# no demo): patch applied -> ./check <ID> -> tree restored.  Prints one line per change.
#   tools/recheck_seeds.sh [name-glob]
set -u
cd /repo || exit 2
if [ -n "$(git status --porcelain)" ]; then echo "repo dirty"; exit 2; fi
trap 'git -C /repo checkout -- .' EXIT
for d in /verif/seeded/${1:-*}/; do
  name=$(basename "$d")
  id=$(python3 -c "import json,sys; m=json.load(open('$d/meta.json')); c=m.get('caught_by_quick_checks') or [m['breaks_property']]; print(c[0])" 2>/dev/null) || { echo "$name: no meta"; continue; }
  if ! git apply "$d/patch.diff" 2>/dev/null; then echo "$name: patch does not apply"; continue; fi
  out=$(cd /verif && VERIF_NO_NDA=${VERIF_NO_NDA-1} timeout 1200 ./check "$id" --tier quick 2>&1); rc=$?
  git checkout -- .
  echo "$name: $id exit $rc $(echo "$out" | grep -E "signature|INCONCLUSIVE" | head -1 | tr -s ' ')"
done
