#!/usr/bin/env python3
"""Regenerates /verif/MANIFEST.json from the table below (kept next to the
harness so that the registered commands and the built checks cannot drift)."""
import json, subprocess, os

HOOK_COMMITS = subprocess.run(
    ["git", "-C", "/repo", "log", "--format=%h %s", "--grep=verif-hooks feature"],
    capture_output=True, text=True).stdout.strip().splitlines()

# id -> (technique, level text, level note, design ref)
_IOVEC = "model-based stateful property testing (proptest operation sequences with generated arguments, interpreter + shadow byte-pipe model, invariants after every step, whole-history shrinking)"
CHECKS = {
    "C03": (_IOVEC,
            "Tens of thousands (over a million in thorough) of generated histories of up to 60/200 operations over up to four OwningIovecs (all producer, consumer, arena and structural operations, sizes around the 64/256-byte copy thresholds and the arena chunk sizes) are executed against a shadow pipe model; contents, sizes, return values and the agreement of all read-side views are checked after every operation for every live iovec.",
            "Caller contract respected by construction (buffers outlive iovecs, backrefs used once on their own iovec, pop_front only with a stable prefix). Bounded history length.", "DESIGN.md §5 C03"),
    "C04": (_IOVEC + " + exhaustive enumeration of placeholder fill orders",
            "The same interpreter with a placeholder-heavy operation mix (many in flight, random fill order, merges into the placeholder's slice, byte-granular consumption up to the blocked slice); visibility is bounded by the earliest pending placeholder after every step, a byte once observable never changes, and Ok/Err of iovs/flatten/stable_consumer tracks pending placeholders; all n! fill orders for n <= 5 (6) placeholders x 3 push-size variants are enumerated; placeholders of up to 4200 bytes are registered with a chosen number of bytes left in the arena's current chunk.",
            "Only an upper bound on visibility while a placeholder is pending.", "DESIGN.md §5 C04"),
    "C05": (_IOVEC + " with an address-level invariant from a source hook (live-chunk registry + quarantine/poison of released chunks); codec, chunker and reader runs with held slices",
            "After every operation every reachable slice (iovec read side, held AnchoredSlices, held StreamChunker chunks, kept StreamReader record clones, Encoder/Decoder output under anchored input, Decoder output left behind by a decoding error) must lie in a caller buffer or wholly inside one live arena chunk, never in a released one, and hold the expected bytes; owned ranges must be disjoint. Released chunks stay mapped and poisoned for the rest of the case, so the test is exact and independent of allocator address reuse.",
            "Hook: owning_iovec/verif-hooks. Lifetime misuse needing caller-side unsafe is out of scope.", "DESIGN.md §5 C05"),
    "C01": ("property-based round-trip testing (proptest: structured payload + feeding/draining plans, shrinking) + small-scope exhaustive enumeration through a limits hook",
            "Thousands (hundreds of thousands in thorough) of generated (payload, encoder plan, decoder plan) cases with boundary-biased lengths, FE/FD-dense bytes, all four input methods per side, scripted short-read/EINTR readers and consumer drains in flight; plus every string over {FE,FD,00} up to length 7 (9) x 4 tiny limit pairs x every 2-way cut x copy/borrow on both sides. Sampled, not exhaustive, at production limits.",
            "Round-trip oracle only (an encoder and decoder wrong in the same way pass; C07 covers that). Hook: hcobs/verif-hooks.", "DESIGN.md §5 C01"),
    "C02": ("property-based metamorphic testing (segmentation / method / drain schedule must not change the output) + validity predicates (stuff-free, length bound) + exhaustive length sweep and small-scope enumeration",
            "Generated feeding plans are compared with a one-call encoding of the same input on a fresh Encoder; FE FD is searched in the full early-drained ++ finish() byte string; the length bound is checked on every case and on a complete sweep of lengths 0..600 and 252+k*64008+{-2..2}; dedicated generators place FE FD across the last byte of the 252- and 64008-byte chunks and at power-of-two distances (2^6..2^16, +-2) from every point where a scan can start, fed in one call or in pieces.",
            "The one-call reference is the same Encoder; agreement with an independent codec is C07's subject.", "DESIGN.md §5 C02"),
    "C06": ("differential property-based testing: generated streams (records, torn/corrupted records, garbage, delimiter runs, truncations) x scripted readers x block sizes x judge parameters, against an independent splitter + reference decoder",
            "The exact list of (decoded bytes, byte range) returned by successive next_record_bytes calls, then end of stream, is compared with a reference computed by splitting the stream at every FE FD and decoding each segment with the reference decoder under the same size/offset limits; short reads down to one byte, EINTR, block sizes from 0 to the default, and a log truncated at every byte are generated.",
            "Standard judge only; readers never fail hard; reference decoder of C07 defines validity.", "DESIGN.md §5 C06"),
    "C07": ("differential property-based testing against an independently written reference codec (encoder: byte equality; decoder: accept/reject verdict and bytes) with a mutation-based generator of malformed streams + small-scope exhaustive enumeration + every-position truncation",
            "Encoder output equals the reference encoding byte for byte on generated payloads/feeding plans; the decoder's verdict and output equal the reference decoder's on valid encodings, header mutations (253..255, near-limit sizes), set/insert/delete/truncate/append mutations and short arbitrary strings, under generated call segmentations; all strings over a header alphabet up to length 6 (7) with limits 3/5 and 2/3, and every truncation of boundary-length encodings, are enumerated.",
            "Trusts refimpl/hcobs_ref.rs (validated against the expected pairs of the crate's own unit tests).", "DESIGN.md §5 C07"),
    "C08": ("property-based testing with a tiling invariant checked chunk by chunk against the input stream (running position, content equality, no FE FD inside or across Data chunks, sticky Eof)",
            "Every chunk returned by pump is checked against the generated stream at the running position (the block size may change from call to call); the same streams, scripted readers (short reads, EINTR), block sizes {0,1,2,...,default} and arena preparations as C06, plus arenas whose current chunk is a maximum-size (1 MiB) one with 0..37 bytes left.",
            "Readers never fail hard or end early.", "DESIGN.md §5 C08"),
    "C09": ("property-based testing with an online invariant over the call history (observed bytes never change, drained = observable prefix, observable prefix of final output, lag bound) on generated drain schedules and on multi-MiB generated streams",
            "After every encoder/decoder call the consumable bytes are compared with everything seen before and with the final output; lag is checked against the constant bound after every call, on short messages with dense drain schedules and on streams of 2..24 MiB (16..320 MiB thorough) through Encoder, Decoder and Encoder->Decoder pipelines.",
            "Arena requests <= 512 KiB; the bound is checked as a constant.", "DESIGN.md §5 C09"),
    "C10": ("property-based testing with a resource-accounting invariant (process-wide live-chunk counters before = after for generated histories ending in drop; sampled peak of live bytes on generated multi-MiB streams)",
            "Generated OwningIovec/AnchoredSlice histories, Encoder/Decoder plans, StreamReader and StreamChunker runs end by dropping every object in a generated order, after which (num_live_chunks, num_live_bytes) must be back to their initial values; streams of 16..40 MiB (32..512 MiB thorough) through Encoder / Decoder / pipeline with a draining consumer must keep live bytes under 4 MiB per codec and must not grow between the first and second half of the stream.",
            "Single-threaded workers (process-wide counters); arena requests <= 512 KiB; constant bound with margin.", "DESIGN.md §5 C10"),
    "C11": ("property-based round-trip + differential testing against an independently written Roughtime layout (proptest recursive value generator), limit checks with claimed-length values",
            "Generated lists of pairs (repeated tags, empty values, borrowed/owned Cow, &str, nested messages to depth 3, re-encoded views; all three constructors; OwningIovec and HCOBS Encoder sinks) are encoded and compared byte for byte with the reference layout, then read back through every MessageView accessor; accept/reject at the i32::MAX limits is decided with values that only claim a length, including exact edge totals.",
            "Trusts refimpl/tlv_ref.rs; more than i32::MAX pairs only in the thorough tier.", "DESIGN.md §5 C11"),
    "C12": ("differential property-based testing of a parser on untrusted bytes: header-shape generator with single perturbations + exhaustive small word strings + every truncation, against an independent validator; accessor agreement as a metamorphic check",
            "MessageView::new's verdict is compared with an independent validator on perturbed headers (0..12 values, and up to 1100 values with the perturbation at power-of-two indices), arbitrary strings, every prefix of valid messages and every string of up to 6 (8) words over {0,1,2,3,u32::MAX}; on accepted views all accessors are exercised at indices 0..N+2 and usize::MAX and must agree with each other and with the reference parse, with values tiling the payload by address.",
            "Trusts refimpl/tlv_ref.rs.", "DESIGN.md §5 C12"),
    "C13": ("schedule- and reads-from-generating property testing: the harness owns the scheduler (baton between OS threads at every hooked atomic/lock operation) and a view-based release/acquire memory model; schedules and stale-read choices are proptest values (shrinkable, replayable); bounded-preemption schedules enumerated exhaustively",
            "Tens of thousands (millions in thorough) of generated (thread programs, schedule, reads-from choices) executions of the real AtomicBaseTime code against a harness-owned memory model that produces the stale reads release/acquire permits; snapshots must be whole pairs, never go backwards per thread, be at least as recent as everything that happens-before them, and the writers' effects must equal a sequential replay in lock order, including updates the crate rejects (mismatched voucher: panic inside the critical section, poisoned lock, recovery by the next writer), which must leave no trace; every schedule with <= 2 (3) preemptions for four fixed programs is enumerated.",
            "Promise-free RA fragment (sound: no false alarms; load-buffering not generated); <= 3 (4) threads x <= 3 (4) operations; hook: vouched_time/verif-hooks.", "DESIGN.md §5 C13"),
    "C14": ("differential property-based testing against i128 reference arithmetic, with a boundary-biased generator and a complete grid of window edges x anchor times",
            "Hundreds of thousands (tens of millions in thorough) of generated (local time, base time, voucher) triples around both window edges, the epoch (including negative sub-millisecond times), the calendar limits, base times near 0 / 2^63 / 2^64 and discrepancies of k*2^p plus an in-window offset (p = 8..62), with correct, off-by-one, foreign-parameter and random vouchers; accept/reject compared with the rule evaluated in i128; sequences of related calls on one thread (a pool of base times and their vouchers, mismatches after matches) judged call by call; plus a complete edge grid and now() with a provider answering clock - diff.",
            "Local milliseconds are the floor of the local time; voucher validity decided by the raffle crate with the crate's CHECK string.", "DESIGN.md §5 C14"),
    "C15": ("model-based property testing: exhaustive DFS over operation sequences + proptest random sequences, VecDeque as reference model",
            "Every operation sequence over a 10-symbol alphabet up to depth 8 (9 in thorough) on three byte-item backings (and to depth 7 (8) on backings with zero-sized, 8-byte and padded-pair items) is enumerated and compared step by step with VecDeque, then tens of thousands (millions in thorough) of random sequences of up to 200 operations, and sequences starting from 1000..300000 elements with half of them consumed; the space bound is read through a hook, the crate's debug assertions are on. Exhaustive within the bound, sampled beyond it.",
            "VecDeque is the reference; bounded sequence length; hooks: sliding_deque/verif-hooks (verif_rep).", "DESIGN.md §5 C15"),
    "C16": ("model-based property testing: exhaustive DFS over operation sequences + proptest random sequences, BTreeMap as reference model",
            "Every operation sequence over a 12-symbol alphabet up to depth 7 (8 in thorough) for the built-in item conventions (and to depth 6 (7) for wide signed keys and for a user-supplied reversed comparator) is enumerated and compared with BTreeMap after every step (iteration, first/last, find of every key), then random sequences of up to 150 operations including pushes that must panic.",
            "BTreeMap is the reference; key universe of 8; whole-item convention exercised with distinct keys only.", "DESIGN.md §5 C16"),
    "C17": ("fault-injection property testing: scripted reader faults (short reads, EINTR, EOF, hard errors) enumerated exhaustively up to a script length and generated randomly beyond, against a reference read loop written from the documentation",
            "All fault scripts up to length 4 (5) x 7 counts x 6 attempt limits x 5 (entry point, arena state) pairs are enumerated, plus random scripts and sequences of encode_read/decode_read calls; the instrumented reader records the buffer size of every call, and the result, call count, offered sizes, error kind and final codec output are compared with the reference.",
            "Readers never deliver more than their buffer; reference codec of C07.", "DESIGN.md §5 C17"),
    "C18": ("fault-schedule enumeration + property testing on the C13 scheduler: writers are suspended forever at every hooked step (exhaustively for small programs, randomly beyond) and a solo caller must finish alone within a step budget without lock operations",
            "Every suspension point of one writer doing two updates and of two concurrent writers is enumerated for snapshot / sequence / try_update callers (and observe_file_time vs get_base_time_unlocked on the process-wide cell), plus random programs, suspension points and stale reads; the solo caller must complete while all peers stay frozen, take no lock (readers) or exactly one try_lock (try_update), need exactly four loads when nothing completes during its read, and try_update must return false while a suspended writer holds the lock; a second family interleaves a reader with a writer that commits one update inside every read attempt (up to 33 consecutive invalidated attempts, writer optionally frozen afterwards): the reader must still take no lock, never block, and use at most four loads per commit that landed inside its call.",
            "Liveness as bounded termination under frozen peers; hook: vouched_time/verif-hooks.", "DESIGN.md §5 C18"),
    "C19": ("stateful property-based testing against the real file system, one fresh process per generated call history (process-global module state), invariant over the history checked after every call",
            "Thousands (hundreds of thousands in thorough) of generated call sequences over files on two writable devices (trusted or not), old and fresh change-times, read-only foreign devices, explicit 'now' values on both sides of the refresh threshold; after every call the base time must not have decreased and any change must equal the change-time (read back with stat) of a file the call could legitimately have observed on a trusted device; untrusted observations report nothing; every returned pair passes VouchedTime::check.",
            "Two writable devices only (ext4 under /verif, /dev/shm); never predicts the refresh policy; violations are time-dependent and reported as first observed when they do not reproduce.", "DESIGN.md §5 C19"),
    "C20": (_IOVEC + " with two models (one per side of a clone/take) and the live-chunk registry",
            "Generated prefix, clone()/take(), then generated suffixes interleaved over both sides (optionally dropping one side first); each side is compared with its own model after every operation and all exposed slices are address-checked with quarantine on, so interference through shared slices, anchors, arena cache or backrefs shows up as a content, size or liveness mismatch.",
            "Clone only with no placeholder pending (the property's own precondition). Hook: owning_iovec/verif-hooks.", "DESIGN.md §5 C20"),
}

ALL = ["C%02d" % i for i in range(1, 21)]

def main():
    checks = []
    for pid in ALL:
        if pid not in CHECKS:
            continue
        tech, text, note, ref = CHECKS[pid]
        checks.append({
            "property_id": pid,
            "quick_cmd": f"./check {pid} --tier quick",
            "thorough_cmd": f"./check {pid} --tier thorough",
            "evidence_file": f"/verif/evidence/{pid}.json",
            "replay_cmd_template": f"./check {pid} --replay {{path}}",
            "engine": "vp-harness",
            "level_claimed": {"category": "exploration", "text": text, "design_ref": ref},
            "level_note": note,
            "technique": tech,
        })
    manifest = {
        "version": 1,
        "setup_cmd": "cd /verif/harness && CARGO_NET_OFFLINE=true cargo build --release --offline && CARGO_NET_OFFLINE=true cargo build --profile nda --offline",
        "hooks": {
            "guard": "cargo feature `verif-hooks` (owning_iovec, sliding_deque, hcobs, vouched_time)",
            "enable": "the harness crate depends on the /repo crates by path with features = [\"verif-hooks\"]; ./check rebuilds it before every run",
            "baseline_off_cmd": "cd /repo && cargo test --workspace --no-fail-fast --offline",
            "source_commits": HOOK_COMMITS,
            "add_only": True,
        },
        "engines": [
            {"name": "vp-harness", "path": "/verif/harness",
             "serves_properties": sorted(CHECKS.keys()),
             "kind_free_text": "Rust binary: proptest TestRunner (fixed seeds, shrinking, no persistence) + hand-written exhaustive enumerations + reference models; sharded single-threaded worker processes; serde replay files"},
        ],
        "checks": checks,
        "not_applicable": [
            {"property_id": pid, "reason": "no check registered"}
            for pid in ALL if pid not in CHECKS
        ],
        "notes": "Exit codes: 0 held, 1 violation (VIOLATION line), 2 inconclusive (build failure / watchdog). VERIF_SEED selects the PRNG seed (default 1). Known findings: /verif/KNOWN_FINDINGS.txt.",
    }
    with open("/verif/MANIFEST.json", "w") as f:
        json.dump(manifest, f, indent=1)
        f.write("\n")

if __name__ == "__main__":
    main()
