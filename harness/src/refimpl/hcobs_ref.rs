//! Reference hybrid COBS codec, written from the format description only
//! (chunk limits, header layout, termination rule); the production
//! constants are literals here and nothing is imported from `hcobs`.
//!
//! Format: a message is a sequence of chunks.  The first chunk has a
//! one-byte length header (0..=L1), later chunks a two-byte little-endian
//! radix-253 header (0..=L2).  A chunk shorter than its limit stands for
//! "data followed by the stuff sequence FE FD", except that for the last
//! chunk of the message the implied stuff sequence is the terminator and
//! is dropped.  A message therefore always ends on a short chunk.

pub const LIMIT_FIRST: usize = 252;
pub const LIMIT_LATER: usize = 64008;
pub const RADIX: usize = 253;

fn find_stuff(window: &[u8]) -> Option<usize> {
    (0..window.len().saturating_sub(1)).find(|&i| window[i] == 0xFE && window[i + 1] == 0xFD)
}

fn push_header(out: &mut Vec<u8>, first: bool, size: usize) {
    if first {
        assert!(size < RADIX);
        out.push(size as u8);
    } else {
        assert!(size < RADIX * RADIX);
        out.push((size % RADIX) as u8);
        out.push((size / RADIX) as u8);
    }
}

/// Canonical encoding of `data` with first-chunk limit `l1` and later-chunk limit `l2`.
pub fn encode(data: &[u8], l1: usize, l2: usize) -> Vec<u8> {
    let mut out = Vec::with_capacity(data.len() + 3 + 2 * (data.len() / l2.max(1)));
    let mut pos = 0;
    let mut first = true;
    loop {
        let limit = if first { l1 } else { l2 };
        let end = (pos + limit).min(data.len());
        let window = &data[pos..end];
        if let Some(idx) = find_stuff(window) {
            // Short chunk: the stuff sequence is implied.
            push_header(&mut out, first, idx);
            out.extend_from_slice(&window[..idx]);
            pos += idx + 2;
        } else if window.len() == limit {
            // Full chunk: nothing implied.
            push_header(&mut out, first, limit);
            out.extend_from_slice(window);
            pos += limit;
        } else {
            // The rest of the data fits in a short chunk: it ends the message.
            push_header(&mut out, first, window.len());
            out.extend_from_slice(window);
            return out;
        }
        first = false;
    }
}

#[derive(Clone, Copy, Debug, PartialEq, Eq)]
pub enum Reject {
    Empty,
    BadFirstHeader,
    BadHeaderByte,
    OversizedChunk,
    TruncatedHeader,
    TruncatedChunk,
    EndsOnFullChunk,
}

/// Decodes `enc`, or says why it is not a well-formed message.
pub fn decode(enc: &[u8], l1: usize, l2: usize) -> Result<Vec<u8>, Reject> {
    if enc.is_empty() {
        return Err(Reject::Empty);
    }
    let mut out = Vec::with_capacity(enc.len());
    let mut pos;
    let mut short;
    {
        let size = enc[0] as usize;
        if size > l1 {
            return Err(Reject::BadFirstHeader);
        }
        if enc.len() - 1 < size {
            return Err(Reject::TruncatedChunk);
        }
        out.extend_from_slice(&enc[1..1 + size]);
        pos = 1 + size;
        short = size < l1;
    }
    while pos < enc.len() {
        if short {
            out.extend_from_slice(&[0xFE, 0xFD]);
        }
        let b0 = enc[pos] as usize;
        if b0 >= RADIX {
            return Err(Reject::BadHeaderByte);
        }
        if pos + 1 >= enc.len() {
            return Err(Reject::TruncatedHeader);
        }
        let b1 = enc[pos + 1] as usize;
        if b1 >= RADIX {
            return Err(Reject::BadHeaderByte);
        }
        let size = b0 + RADIX * b1;
        if size > l2 {
            return Err(Reject::OversizedChunk);
        }
        pos += 2;
        if enc.len() - pos < size {
            return Err(Reject::TruncatedChunk);
        }
        out.extend_from_slice(&enc[pos..pos + size]);
        pos += size;
        short = size < l2;
    }
    if short {
        Ok(out)
    } else {
        Err(Reject::EndsOnFullChunk)
    }
}

/// Upper bound on the encoded length stated by the property.
pub fn length_bound(len: usize) -> usize {
    len + 1 + 2 * len.div_ceil(LIMIT_LATER)
}

pub fn contains_stuff(bytes: &[u8]) -> Option<usize> {
    find_stuff(bytes)
}

/// Splits a stream at every FE FD occurrence (they cannot overlap) and
/// returns the maximal stuff-free segments as (start, end) ranges,
/// including empty ones, together with the sentinel positions.
pub fn split_stream(stream: &[u8]) -> (Vec<(usize, usize)>, Vec<usize>) {
    let mut segments = vec![];
    let mut sentinels = vec![];
    let mut start = 0;
    let mut i = 0;
    while i + 1 < stream.len() {
        if stream[i] == 0xFE && stream[i + 1] == 0xFD {
            segments.push((start, i));
            sentinels.push(i);
            i += 2;
            start = i;
        } else {
            i += 1;
        }
    }
    segments.push((start, stream.len()));
    (segments, sentinels)
}

#[cfg(test)]
mod tests {
    use super::*;

    #[test]
    fn examples_from_the_crate_tests() {
        // Expected pairs quoted from the unit tests in hcobs/src/{encoder,decoder}.rs (limits 3 / 5).
        let pairs: &[(&[u8], &[u8])] = &[
            (b"", b"\x00"),
            (b"1", b"\x011"),
            (b"12", b"\x0212"),
            (b"123", b"\x03123\x00\x00"),
            (b"1234567", b"\x03123\x04\x004567"),
            (b"12345678", b"\x03123\x05\x0045678\x00\x00"),
            (b"123456789", b"\x03123\x05\x0045678\x01\x009"),
            (b"\xFE\xFD", b"\x00\x00\x00"),
            (b"1\xFE\xFD", b"\x011\x00\x00"),
            (b"12\xFE\xFD", b"\x0312\xFE\x01\x00\xFD"),
            (b"123\xFE\xFD", b"\x03123\x00\x00\x00\x00"),
            (b"1234\xFE\xFD\xFE", b"\x03123\x01\x004\x01\x00\xFE"),
            (b"1234\xFE\xFE\xFD", b"\x03123\x02\x004\xFE\x00\x00"),
            (b"1234\xFE\xFE\xFE", b"\x03123\x04\x004\xFE\xFE\xFE"),
            (b"1234\xFD\xFD\xFD", b"\x03123\x04\x004\xFD\xFD\xFD"),
        ];
        for (plain, enc) in pairs {
            assert_eq!(&encode(plain, 3, 5), enc, "encode {plain:?}");
            assert_eq!(&decode(enc, 3, 5).unwrap(), plain, "decode {enc:?}");
        }
        let bad: &[&[u8]] = &[
            b"", b"\x01", b"\x03123", b"\xff", b"\x0f", b"\x021", b"\x03123\xff", b"\x03123\x00\xff",
            b"\x03123\x00\x01", b"\x03123\x01\x00", b"\x03123\x05\x0045678",
        ];
        for enc in bad {
            assert!(decode(enc, 3, 5).is_err(), "{enc:?}");
        }
        // Production constants: smoke_test in hcobs/src/lib.rs.
        assert_eq!(encode(b"123456789789", LIMIT_FIRST, LIMIT_LATER), b"\x0c123456789789");
    }

    #[test]
    fn split_stream_example() {
        let (segs, sents) = split_stream(b"\x01a\xFE\xFD\x02bc\xFE\xFD\xFE\xFD");
        assert_eq!(segs, vec![(0, 2), (4, 7), (9, 9), (11, 11)]);
        assert_eq!(sents, vec![2, 7, 9]);
    }
}
