//! Independent reference implementations.
pub mod hcobs_ref;
pub mod tlv_ref;
