//! Independent reference implementations.
