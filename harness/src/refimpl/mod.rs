//! Independent reference implementations.
pub mod hcobs_ref;
