//! Reference Rough TLV layout and validator, written from the format
//! description in rough_tlv's crate documentation (Roughtime message format).

/// Bytes of a message holding `pairs` (already in the order they must appear).
pub fn layout(pairs: &[(u32, Vec<u8>)]) -> Vec<u8> {
    let n = pairs.len();
    let mut out = Vec::new();
    out.extend_from_slice(&(n as u32).to_le_bytes());
    let mut acc = 0u32;
    for (i, (_, v)) in pairs.iter().enumerate() {
        if i > 0 {
            out.extend_from_slice(&acc.to_le_bytes());
        }
        acc = acc.wrapping_add(v.len() as u32);
    }
    for (t, _) in pairs {
        out.extend_from_slice(&t.to_le_bytes());
    }
    for (_, v) in pairs {
        out.extend_from_slice(v);
    }
    out
}

/// Stable sort by tag (ties keep insertion order).
pub fn sorted(pairs: &[(u32, Vec<u8>)]) -> Vec<(u32, Vec<u8>)> {
    let mut v: Vec<(usize, &(u32, Vec<u8>))> = pairs.iter().enumerate().collect();
    v.sort_by(|a, b| a.1 .0.cmp(&b.1 .0).then(a.0.cmp(&b.0)));
    v.into_iter().map(|(_, p)| p.clone()).collect()
}

#[derive(Clone, Copy, Debug, PartialEq, Eq)]
pub enum Invalid {
    TooShortForCount,
    TooShortForHeader,
    OffsetsDecrease,
    TagsDecrease,
    LastOffsetBeyondPayload,
}

fn word(bytes: &[u8], index: usize) -> u32 {
    u32::from_le_bytes(bytes[4 * index..4 * index + 4].try_into().unwrap())
}

/// Decides whether `bytes` is an acceptable message; returns the pairs if so.
pub fn parse(bytes: &[u8]) -> Result<Vec<(u32, Vec<u8>)>, Invalid> {
    if bytes.len() < 4 {
        return Err(Invalid::TooShortForCount);
    }
    let n = word(bytes, 0) as u128;
    if 8 * n > bytes.len() as u128 {
        return Err(Invalid::TooShortForHeader);
    }
    let n = n as usize;
    if n == 0 {
        return Ok(vec![]);
    }
    let offsets: Vec<u32> = (1..n).map(|i| word(bytes, i)).collect();
    let tags: Vec<u32> = (n..2 * n).map(|i| word(bytes, i)).collect();
    if offsets.windows(2).any(|w| w[0] > w[1]) {
        return Err(Invalid::OffsetsDecrease);
    }
    if tags.windows(2).any(|w| w[0] > w[1]) {
        return Err(Invalid::TagsDecrease);
    }
    let payload = &bytes[8 * n..];
    if let Some(last) = offsets.last() {
        if *last as u128 > payload.len() as u128 {
            return Err(Invalid::LastOffsetBeyondPayload);
        }
    }
    let mut pairs = vec![];
    let mut start = 0usize;
    for i in 0..n {
        let end = if i + 1 < n { offsets[i] as usize } else { payload.len() };
        pairs.push((tags[i], payload[start..end].to_vec()));
        start = end;
    }
    Ok(pairs)
}

#[cfg(test)]
mod tests {
    use super::*;

    #[test]
    fn example_from_the_crate_docs() {
        // rough_tlv/src/encoder.rs doc example.
        let pairs = vec![(1u32, b"asd".to_vec()), (2u32, b"zxcv".to_vec())];
        let want: Vec<u8> = [&2u32.to_le_bytes()[..], &3u32.to_le_bytes(), &1u32.to_le_bytes(), &2u32.to_le_bytes(), b"asd", b"zxcv"].concat();
        assert_eq!(layout(&pairs), want);
        assert_eq!(parse(&want).unwrap(), pairs);
        assert_eq!(layout(&[]), 0u32.to_le_bytes());
        assert!(parse(&[0, 0, 0]).is_err());
        assert_eq!(parse(&[0, 0, 0, 0, 9]).unwrap(), vec![]);
    }
}
