//! Byte-level entry points for coverage-guided fuzzing (libFuzzer targets
//! under /verif/fuzz) and for replaying their artifacts in the ordinary
//! harness build.  Each entry decodes the bytes into one of the harness's
//! structured cases with a *total* decoder (any byte string is a case) and
//! runs the same oracles as the property checks.
use crate::engine::bytespec::{ByteSpec, Cut, Hex, Seg};
use crate::engine::{CaseResult, Fail, Outcome};
use crate::props::codec::{CodecCase, Drain, Method, Nudge, ReadStep, Side};
use crate::props::iovec_sm::{self, History, Op, Profile};
use crate::props::stream_in::{Delivery, StreamSpec, Token};
use crate::props::{c01, c02, c06, c07, c08, c09, c11, c12, c15, c16, c17};

pub const TARGETS: [&str; 9] = ["hcobs_decode", "hcobs_roundtrip", "iovec_sm", "tlv_view", "stream_reader", "sliding_deque", "sorted_deque", "arena_read", "tlv_encode"];

/// Which properties a target's oracles belong to (the first one is used for reporting).
pub fn properties_of(target: &str) -> &'static [&'static str] {
    match target {
        "hcobs_decode" => &["C07"],
        "hcobs_roundtrip" => &["C01", "C02", "C07", "C09"],
        "iovec_sm" => &["C03", "C04", "C05", "C10", "C20"],
        "tlv_view" => &["C12"],
        "stream_reader" => &["C06", "C08", "C05"],
        "sliding_deque" => &["C15"],
        "sorted_deque" => &["C16"],
        "arena_read" => &["C17"],
        "tlv_encode" => &["C11"],
        _ => &[],
    }
}

struct Cursor<'a> {
    data: &'a [u8],
    pos: usize,
}

impl<'a> Cursor<'a> {
    fn u8(&mut self) -> u8 {
        let b = self.data.get(self.pos).copied().unwrap_or(0);
        self.pos += 1;
        b
    }
    fn u16(&mut self) -> u16 {
        u16::from_le_bytes([self.u8(), self.u8()])
    }
    fn u32(&mut self) -> u32 {
        u32::from_le_bytes([self.u8(), self.u8(), self.u8(), self.u8()])
    }
    fn rest(&mut self) -> &'a [u8] {
        let r = self.data.get(self.pos..).unwrap_or(&[]);
        self.pos = self.data.len();
        r
    }
    fn exhausted(&self) -> bool {
        self.pos >= self.data.len()
    }
}

fn method(c: &mut Cursor) -> Method {
    match c.u8() % 6 {
        0 => Method::Borrow,
        1 => Method::Copy,
        2 => Method::Anchored,
        5 => Method::AnchoredForeign,
        _ => {
            let n = (c.u8() % 4) as usize;
            let script = (0..n)
                .map(|_| {
                    let b = c.u8();
                    if b % 5 == 0 {
                        ReadStep::Interrupt
                    } else if b % 17 == 1 {
                        ReadStep::Error
                    } else {
                        ReadStep::Deliver(b)
                    }
                })
                .collect();
            Method::Read { script, attempts: 1 + c.u8() % 4 }
        }
    }
}

fn drain(c: &mut Cursor) -> Drain {
    match c.u8() % 6 {
        0 => Drain::Nothing,
        1 => Drain::Consume(c.u8() % 4),
        2 => Drain::AdvanceFrac(c.u8()),
        3 => Drain::AdvanceAbs(c.u16()),
        4 => Drain::Read(c.u16() % 2048),
        _ => Drain::All,
    }
}

fn side(c: &mut Cursor) -> Side {
    let k = (c.u8() % 6) as usize;
    let cuts = (0..k)
        .map(|_| match c.u8() % 3 {
            0 => Cut::Frac(c.u16()),
            1 => Cut::Near { which: c.u8(), delta: c.u8() % 5 },
            _ => Cut::Abs(c.u16() as u32),
        })
        .collect();
    let m = (c.u8() % 4) as usize;
    let methods = (0..m).map(|_| method(c)).collect();
    let d = (c.u8() % 4) as usize;
    let drains = (0..d).map(|_| drain(c)).collect();
    let n = (c.u8() % 4) as usize;
    let nudges = (0..n)
        .map(|_| match c.u8() % 6 {
            0 | 1 | 2 => Nudge::Nothing,
            3 => Nudge::Flush,
            4 => Nudge::Ensure(c.u16() as u32),
            5 if c.u8() % 4 == 0 => Nudge::Replace,
            _ => Nudge::LeaveRemaining(c.u16() % 300),
        })
        .collect();
    Side { cuts, methods, drains, nudges }
}

fn first_err(results: Vec<(&'static str, CaseResult)>) -> (&'static str, CaseResult) {
    for (p, r) in results {
        if r.is_err() {
            return (p, r);
        }
    }
    ("", Ok(Outcome::trivial()))
}

fn iovec_op(c: &mut Cursor) -> Op {
    let slot = c.u8();
    let size = |c: &mut Cursor| -> u32 {
        match c.u8() % 8 {
            0 => (c.u8() % 9) as u32,
            1 => 60 + (c.u8() % 10) as u32,
            2 => 250 + (c.u8() % 12) as u32,
            3 => 4000 + c.u8() as u32,
            4 => 8100 + c.u8() as u32,
            5 => 69_000 + c.u16() as u32 % 2000,
            _ => c.u16() as u32 % 400,
        }
    };
    match c.u8() % 30 {
        0 | 1 => Op::PushBorrowed { slot, off: c.u32(), len: size(c) },
        2 | 3 | 4 => Op::PushCopy { slot, off: c.u32(), len: size(c) },
        5 | 6 => Op::Push { slot, off: c.u32(), len: size(c) },
        7 => Op::Extend {
            slot,
            parts: (0..c.u8() % 4).map(|_| (c.u32(), c.u16() % 300)).collect(),
        },
        8 => Op::FromSlices {
            parts: (0..c.u8() % 4).map(|_| (c.u32(), c.u16() % 300)).collect(),
            collect: c.u8() % 2 == 0,
        },
        9 | 10 => {
            let len = c.u8();
            // One in eight placeholders is large (up to 1 KiB).
            let big = if len & 0xE0 == 0xE0 { 5 + (c.u8() as u16) * 4 } else { 0 };
            Op::Register { slot, len: len % 5, big }
        }
        11 | 12 => Op::Backfill { slot, which: c.u8() },
        13 => Op::Clear { slot },
        14 => Op::Take { slot },
        15 => {
            let give = c.u8();
            if give % 3 == 0 {
                Op::CloneWithPending { slot, give }
            } else {
                Op::CloneSlot { slot }
            }
        }
        16 => Op::DropSlot { slot },
        17 => Op::Flush { slot },
        18 => Op::Ensure { slot, len: size(c) },
        19 => match c.u8() % 6 {
            5 => Op::PushEmptyAnchor { slot },
            0 => Op::TakeArenaBack { slot },
            1 => Op::SwapArenas { a: slot, b: c.u8() },
            2 => Op::NewFromArena { slot },
            _ => Op::FillChunk {
                slot,
                off: c.u32(),
                leave: c.u16() % 1100,
                via_copy: c.u8() % 2 == 0,
            },
        },
        20 => Op::AnchoredPush {
            slot,
            off: c.u32(),
            len: size(c).min(9000),
            keep: c.u16() % 40,
        },
        21 => match c.u8() % 4 {
            0 => Op::AnchoredWindows {
                slot,
                off: c.u32(),
                len: 16 + c.u16() as u32 % 3000,
                windows: (0..1 + c.u8() % 3).map(|_| (c.u8(), c.u8())).collect(),
            },
            1 => Op::ExtendPanicking {
                slot,
                parts: (0..c.u8() % 4).map(|_| (c.u32(), c.u16() % 300)).collect(),
                after: c.u8() % 4,
            },
            _ => Op::Hold { slot, off: c.u32(), len: size(c).min(9000) },
        },
        22 => match c.u8() % 7 {
            0 => Op::HeldSplit { idx: slot, mid: c.u16() % 300 },
            1 => Op::HeldSkip { idx: slot, k: c.u16() % 20 },
            2 => Op::HeldDropSuffix { idx: slot, k: c.u16() % 20 },
            3 => Op::HeldClone { idx: slot },
            4 => Op::HeldDrop { idx: slot },
            5 => Op::HeldTake { idx: slot },
            _ => Op::HeldPush { idx: slot, slot: c.u8() },
        },
        23 | 24 => Op::Consume { slot, k: c.u8() % 4 },
        25 => Op::Advance { slot, n: c.u16() as u32 },
        26 | 27 => Op::AdvanceFrac { slot, f: c.u8() },
        28 => Op::PopFront { slot },
        _ => Op::Read { slot, n: c.u16() % 400 },
    }
}

/// Targets (with run counts for a thorough campaign) that attack a property.
pub fn targets_for(property: &str) -> Vec<(&'static str, u64, usize)> {
    // (target, runs per job, max input length)
    let all: [(&str, u64, usize); 9] = [
        ("hcobs_decode", 150_000, 4096),
        ("hcobs_roundtrip", 4_000, 4096),
        ("iovec_sm", 6_000, 1024),
        ("tlv_view", 400_000, 512),
        ("stream_reader", 12_000, 4096),
        ("sliding_deque", 300_000, 600),
        ("sorted_deque", 300_000, 600),
        ("arena_read", 100_000, 256),
        ("tlv_encode", 150_000, 1024),
    ];
    all.iter().filter(|(t, _, _)| properties_of(t).contains(&property)).copied().collect()
}

/// Runs one fuzz input; returns the property whose oracle failed (if any) and the result.
/// With `VERIF_FUZZ_PROPERTY` set, only that property's oracle is evaluated.
pub fn run(target: &str, data: &[u8]) -> (&'static str, CaseResult) {
    let only = std::env::var("VERIF_FUZZ_PROPERTY").ok();
    run_filtered(target, data, only.as_deref())
}

pub fn run_filtered(target: &str, data: &[u8], only: Option<&str>) -> (&'static str, CaseResult) {
    let want = |p: &str| only.map(|o| o == p).unwrap_or(true);
    let mut c = Cursor { data, pos: 0 };
    match target {
        "hcobs_decode" => {
            let s = side(&mut c);
            let stream = c.rest().to_vec();
            let case = c07::DecCase {
                payload: None,
                mutations: vec![c07::Mutation::Append { bytes: Hex(stream) }],
                side: s,
            };
            ("C07", c07::check_decoder(&case))
        }
        "hcobs_roundtrip" => {
            let enc = side(&mut c);
            let dec = side(&mut c);
            // A run of FE FD-dense filler can be requested cheaply, the rest is literal.
            let filler = c.u16() as u32;
            let kind = c.u8();
            let mut segs = vec![];
            if filler > 0 && kind % 4 != 0 {
                segs.push(match kind % 4 {
                    1 => Seg::Fill { byte: 0x41, len: filler },
                    2 => Seg::Noise { seed: filler, len: filler, alphabet: 2 },
                    _ => Seg::Noise { seed: filler, len: (filler as u64 * 3 % 140_000) as u32, alphabet: 1 },
                });
            }
            segs.push(Seg::Lit(Hex(c.rest().to_vec())));
            let case = CodecCase {
                payload: ByteSpec(segs),
                pre: Hex(vec![]),
                enc,
                dec,
            };
            let mut results = vec![];
            if want("C01") {
                results.push(("C01", c01::check_case(&case)));
            }
            if want("C02") {
                results.push(("C02", c02::check_case(&case)));
            }
            if want("C07") {
                results.push(("C07", c07::check_encoder(&case)));
            }
            if want("C09") {
                results.push(("C09", c09::check_case(&case)));
            }
            first_err(results)
        }
        "iovec_sm" => {
            let n_drop = (c.u8() % 6) as usize;
            let drop_order = (0..n_drop).map(|_| c.u8()).collect();
            let mut ops = vec![];
            while !c.exhausted() && ops.len() < 200 {
                ops.push(iovec_op(&mut c));
            }
            let h = History { ops, drop_order };
            let profile = match only {
                Some("C03") | Some("C04") => Profile { check_pipe: true, check_mem: false, check_leak: false },
                Some("C10") => Profile { check_pipe: false, check_mem: false, check_leak: true },
                Some("C05") | Some("C20") => Profile { check_pipe: true, check_mem: true, check_leak: false },
                _ => Profile { check_pipe: true, check_mem: true, check_leak: true },
            };
            let r = iovec_sm::run_history(&h, profile);
            // Attribute to the most specific property by signature.
            let prop = match &r {
                _ if only.is_some() => match only {
                    Some("C03") => "C03",
                    Some("C04") => "C04",
                    Some("C05") => "C05",
                    Some("C10") => "C10",
                    _ => "C20",
                },
                Err(f) if f.sig.starts_with("memory") => "C05",
                Err(f) if f.sig.starts_with("leak") => "C10",
                Err(f) if f.sig.starts_with("pending") || f.sig.starts_with("iovs:arm") || f.sig.starts_with("flatten") || f.sig.starts_with("stable_consumer") => "C04",
                Err(f) if f.sig.starts_with("take:") => "C20",
                _ => "C03",
            };
            (prop, r.map(|_| Outcome::trivial()))
        }
        "tlv_view" => ("C12", c12::check_bytes(data)),
        "stream_reader" => {
            // Block sizes up to 4096 only: half-megabyte arena chunks poisoned byte by byte
            // under AddressSanitizer make an execution take tenths of a second.
            let block = [0u8, 1, 2, 3, 4, 5, 6, 7, 8, 9, 12, 13, 14, 15][(c.u8() % 14) as usize];
            let arena_prep = c.u8() % 7;
            let n = (c.u8() % 8) as usize;
            let script = (0..n)
                .map(|_| {
                    let b = c.u8();
                    if b % 7 == 0 {
                        ReadStep::Interrupt
                    } else {
                        ReadStep::Deliver(b)
                    }
                })
                .collect();
            let cyclic = c.u8() % 2 == 0;
            // One input in four changes the block size from call to call.
            let blocks: Vec<u8> = if c.u8() % 4 == 0 { (0..2 + c.u8() % 3).map(|_| [0u8, 1, 2, 3, 4, 5, 6, 7, 8, 9, 12, 13, 14, 15][(c.u8() % 14) as usize]).collect() } else { vec![] };
            let max_size = if c.u8() % 3 == 0 { Some((c.u8(), c.u8() % 3)) } else { None };
            let limit = if c.u8() % 3 == 0 { Some((c.u8(), c.u8() % 3)) } else { None };
            let stream = StreamSpec {
                leading_sentinels: 0,
                tokens: vec![(Token::Garbage(Hex(c.rest().to_vec())), 0)],
                truncate: None,
            };
            let delivery = Delivery {
                script,
                cyclic,
                block,
                arena_prep,
                big_chunk: false,
                blocks,
                two_arenas: arena_prep == 6 && cyclic,
            };
            let mut results = vec![];
            if want("C08") {
                results.push((
                    "C08",
                    c08::check_case(&c08::Case {
                        stream: stream.clone(),
                        delivery: delivery.clone(),
                    }),
                ));
            }
            if want("C05") {
                results.push((
                    "C05",
                    crate::props::c05::check_chunker(&crate::props::c05::StreamCase {
                        stream: stream.clone(),
                        delivery: delivery.clone(),
                        drop_order: vec![1, 0, 2],
                        keep_every: 1,
                        nudges: vec![],
                    }),
                ));
                results.push((
                    "C05",
                    crate::props::c05::check_reader(&crate::props::c05::StreamCase {
                        stream: stream.clone(),
                        delivery: delivery.clone(),
                        drop_order: vec![1, 0, 2],
                        keep_every: 1,
                        nudges: vec![],
                    }),
                ));
            }
            if want("C06") {
                results.push((
                    "C06",
                    c06::check_case(&c06::Case {
                        stream,
                        delivery,
                        max_size,
                        limit,
                        nudges: vec![],
                    }),
                ));
            }
            first_err(results)
        }
        "sliding_deque" => {
            let backing = [
                c15::Backing::Vec,
                c15::Backing::Small2,
                c15::Backing::Small4,
                c15::Backing::Vec,
                c15::Backing::Small2,
                c15::Backing::Small4,
                c15::Backing::VecUnit,
                c15::Backing::SmallUnit4,
                c15::Backing::VecU64,
                c15::Backing::SmallU64x2,
                c15::Backing::VecWide,
                c15::Backing::SmallPair3,
            ][(c.u8() % 12) as usize];
            let n_init = (c.u8() % 12) as usize;
            let init = (0..n_init).map(|_| c.u8()).collect();
            // (large deques are the `large` group's business: under AddressSanitizer every step of a big one costs milliseconds)
            let init_fill = if c.u8() % 16 == 0 { c.u16() as u32 % 2000 } else { 0 };
            let mut ops = vec![];
            while !c.exhausted() && ops.len() < 400 {
                ops.push(match c.u8() % 12 {
                    0 | 1 | 2 | 3 => c15::Op::Push(c.u8()),
                    4 | 5 => c15::Op::PopFront,
                    6 | 7 => c15::Op::PopBack,
                    8 => c15::Op::Advance(match c.u8() % 8 {
                        0 | 1 => c.u16(),
                        2 => u16::MAX - (c.u8() % 4) as u16,
                        _ => c.u8() as u16 % 8,
                    }),
                    9 => match c.u8() % 4 {
                        0 => c15::Op::Clear,
                        _ => c15::Op::Slide,
                    },
                    10 => match c.u8() % 2 {
                        0 => c15::Op::SetFront(c.u8()),
                        _ => c15::Op::SetBack(c.u8()),
                    },
                    _ => c15::Op::SetIndex(c.u8(), c.u8()),
                });
            }
            ("C15", c15::check_case(&c15::Case { backing, init, ops, init_fill }))
        }
        "sorted_deque" => {
            let convention = [c16::Convention::PairVec, c16::Convention::PairSmall, c16::Convention::ItemVec, c16::Convention::WideSmall, c16::Convention::ReverseVec][(c.u8() % 5) as usize];
            let universe = match c.u8() % 4 {
                0 => 0,
                1 => 16,
                2 => 64,
                _ => 250,
            };
            let mut ops = vec![];
            while !c.exhausted() && ops.len() < 400 {
                ops.push(match c.u8() % 16 {
                    0..=5 => c16::Op::PushNext { gap: c.u8(), value: c.u8() },
                    6 => c16::Op::PushErased { key: c.u8() },
                    7 | 8 => c16::Op::Find(c.u8()),
                    9 | 10 | 11 => c16::Op::Remove(c.u8()),
                    12 => c16::Op::PopFirst,
                    13 => c16::Op::PopLast,
                    14 => {
                        if c.u8() % 8 == 0 {
                            c16::Op::Clear
                        } else {
                            c16::Op::Remove(c.u8())
                        }
                    }
                    _ => {
                        if c.u8() % 4 == 0 {
                            c16::Op::PushBad { back: c.u8(), value: c.u8() }
                        } else {
                            c16::Op::Find(c.u8())
                        }
                    }
                });
            }
            ("C16", c16::check_case(&c16::Case { convention, ops, universe, init: 0 }))
        }
        "arena_read" => {
            let step = |c: &mut Cursor| match c.u8() % 8 {
                0 | 1 | 2 => c17::Step::Deliver(if c.u8() % 4 == 0 { c.u32() % 70_000 } else { c.u8() as u32 }),
                3 => c17::Step::DeliverAll,
                4 | 5 => c17::Step::Interrupted,
                6 => c17::Step::Eof,
                _ => c17::Step::Error(c.u8() % 8),
            };
            let count = |c: &mut Cursor| match c.u8() % 6 {
                0 => 0,
                1 | 2 => c.u8() as u32,
                3 => c.u16() as u32,
                4 => 4000 + c.u16() as u32 % 200,
                _ => c.u32() % 140_000,
            };
            if c.u8() % 2 == 0 {
                let via = [c17::Via::Arena, c17::Via::EncoderReadN, c17::Via::DecoderReadN][(c.u8() % 3) as usize];
                let arena_prep = c.u8() % 7;
                let count = count(&mut c);
                let attempts = 1 + c.u8() % 6;
                let source_len = match c.u8() % 3 {
                    0 => count,
                    1 => count / 2,
                    _ => count.saturating_add(c.u8() as u32),
                };
                let n = (c.u8() % 8) as usize;
                let script = (0..n).map(|_| step(&mut c)).collect();
                ("C17", c17::check_case(&c17::Case { via, script, count, attempts, arena_prep, source_len }))
            } else {
                let decode = c.u8() % 2 == 0;
                let arena_prep = c.u8() % 7;
                let n_calls = 1 + (c.u8() % 4) as usize;
                let calls = (0..n_calls)
                    .map(|_| {
                        let n = (c.u8() % 5) as usize;
                        let script: Vec<c17::Step> = (0..n).map(|_| step(&mut c)).collect();
                        (script, count(&mut c) % 5000, 1 + c.u8() % 5)
                    })
                    .collect();
                let payload = ByteSpec(vec![Seg::Lit(Hex(c.rest().to_vec()))]);
                ("C17", c17::check_codec_case(&c17::CodecCase { decode, payload, calls, arena_prep }))
            }
        }
        "tlv_encode" => {
            fn val(c: &mut Cursor, depth: u8) -> c11::ValSpec {
                let bytes = |c: &mut Cursor| -> Vec<u8> {
                    let n = match c.u8() % 4 {
                        0 => 0,
                        1 | 2 => (c.u8() % 8) as usize,
                        _ => c.u8() as usize,
                    };
                    (0..n).map(|_| c.u8()).collect()
                };
                let text = |c: &mut Cursor| -> String { String::from_utf8_lossy(&bytes(c)).into_owned() };
                match c.u8() % if depth >= 3 { 6 } else { 8 } {
                    0 => c11::ValSpec::Bytes(Hex(bytes(c))),
                    1 => c11::ValSpec::CowBorrowed(Hex(bytes(c))),
                    2 => c11::ValSpec::CowOwned(Hex(bytes(c))),
                    3 => c11::ValSpec::Str(text(c)),
                    4 => c11::ValSpec::CowStrBorrowed(text(c)),
                    5 => c11::ValSpec::CowStrOwned(text(c)),
                    6 => {
                        let ctor = [c11::Ctor::New, c11::Ctor::FromSlice, c11::Ctor::FromSorted][(c.u8() % 3) as usize];
                        let n = (c.u8() % 4) as usize;
                        c11::ValSpec::Nested {
                            ctor,
                            pairs: (0..n).map(|_| (tag(c), val(c, depth + 1))).collect(),
                        }
                    }
                    _ => {
                        let n = (c.u8() % 4) as usize;
                        c11::ValSpec::View {
                            pairs: (0..n).map(|_| (tag(c), Hex(bytes(c)))).collect(),
                        }
                    }
                }
            }
            fn tag(c: &mut Cursor) -> u32 {
                match c.u8() % 4 {
                    0 | 1 => (c.u8() % 6) as u32,
                    2 => c.u32(),
                    _ => u32::MAX - (c.u8() % 3) as u32,
                }
            }
            let ctor = [c11::Ctor::New, c11::Ctor::FromSlice, c11::Ctor::FromSorted][(c.u8() % 3) as usize];
            let sink = [c11::SinkKind::Iovec, c11::SinkKind::HcobsEncoder, c11::SinkKind::Iovec, c11::SinkKind::Custom][(c.u8() % 4) as usize];
            let n = (c.u8() % 40) as usize;
            let mut pairs = vec![];
            while pairs.len() < n && !c.exhausted() {
                pairs.push((tag(&mut c), val(&mut c, 0)));
            }
            ("C11", c11::check_case(&c11::Case { ctor, pairs, sink }))
        }
        _ => ("", Err(Fail::new("fuzz:unknown-target", target.to_string()))),
    }
}

/// Called by the libFuzzer targets: a failed oracle prints a marker and aborts,
/// which makes libFuzzer save the input.
pub fn fuzz_one(target: &str, data: &[u8]) {
    let outcome = crate::engine::panics::catch(|| run(target, data));
    let (prop, fail) = match outcome {
        Ok((_, Ok(_))) => return,
        Ok((prop, Err(f))) => (prop, f),
        Err(p) => (properties_of(target).first().copied().unwrap_or("?"), Fail::new(format!("panic:{}", p.signature()), p.describe())),
    };
    eprintln!("VERIF-ORACLE property={prop} sig={} target={target}\n  {}", fail.sig, fail.msg);
    std::process::abort();
}

/// A few valid inputs per target, to start a campaign from (libFuzzer ramps
/// up from an empty corpus slowly on binary formats).
pub fn seeds(target: &str) -> Vec<Vec<u8>> {
    use crate::refimpl::{hcobs_ref, tlv_ref};
    let enc = |p: &[u8]| hcobs_ref::encode(p, hcobs_ref::LIMIT_FIRST, hcobs_ref::LIMIT_LATER);
    let noise = |seed: u32, len: u32, alphabet: u8| ByteSpec(vec![Seg::Noise { seed, len, alphabet }]).bytes();
    let side_header = |cuts: u8| -> Vec<u8> {
        // `side()` layout: k, k * (kind, args..), m, methods.., d, drains..
        let mut v = vec![cuts];
        for i in 0..cuts {
            v.extend_from_slice(&[0, i.wrapping_mul(53), 40 + i * 30]);
        }
        v.extend_from_slice(&[2, 1, 2, 2, 2, 128, 5, 0]);
        v
    };
    match target {
        "hcobs_decode" => {
            let payloads: Vec<Vec<u8>> = vec![vec![], b"abc".to_vec(), vec![0xFE, 0xFD], noise(1, 300, 1), noise(2, 600, 2), vec![0x41; 252], vec![0x41; 253], noise(3, 70_000, 0)];
            payloads
                .iter()
                .enumerate()
                .map(|(i, p)| {
                    let mut v = side_header((i % 4) as u8);
                    v.extend_from_slice(&enc(p));
                    v
                })
                .collect()
        }
        "hcobs_roundtrip" => (0..6u32)
            .map(|i| {
                let mut v = side_header((i % 4) as u8);
                v.extend_from_slice(&side_header(((i + 1) % 4) as u8));
                v.extend_from_slice(&[(i * 50) as u8, (i % 2) as u8, i as u8]);
                v.extend_from_slice(&noise(i, 40 + i * 90, 1));
                v
            })
            .collect(),
        "iovec_sm" => (0..8u32).map(|i| noise(100 + i, 60 + i * 40, 0)).collect(),
        "tlv_view" => {
            let msgs: Vec<Vec<(u32, Vec<u8>)>> = vec![
                vec![],
                vec![(1, b"a".to_vec())],
                vec![(1, b"asd".to_vec()), (2, b"zxcv".to_vec())],
                vec![(0, vec![]), (0, b"x".to_vec()), (9, vec![]), (u32::MAX, b"tail".to_vec())],
            ];
            msgs.iter().map(|m| tlv_ref::layout(m)).collect()
        }
        "stream_reader" => {
            let mut out = vec![];
            for i in 0..6u8 {
                let mut v = vec![i * 2, i % 7, 3, 17, 200, 7, i % 2, 1, 0, 0, 1];
                for p in [&b"a"[..], b"bc\xFE\xFDd", b"", &noise(i as u32, 300, 1)] {
                    v.extend_from_slice(&enc(p));
                    v.extend_from_slice(&[0xFE, 0xFD]);
                }
                out.push(v);
            }
            out
        }
        // Operation-sequence targets: any bytes are a case; start from a few pseudo-random strings.
        "sliding_deque" | "sorted_deque" | "arena_read" | "tlv_encode" => (0..6u32).map(|i| noise(100 + i, 40 + 60 * i, if i % 2 == 0 { 0 } else { 1 })).collect(),
        _ => vec![],
    }
}
