//! Library face of the harness: shared by the `vp` driver and by the
//! libFuzzer targets under /verif/fuzz.
pub mod engine;
pub mod fuzzing;
pub mod props;
pub mod refimpl;
