//! Panic capture: a quiet process-wide hook that remembers, per thread,
//! the message and location of the last panic.
use std::cell::RefCell;
use std::panic::{catch_unwind, AssertUnwindSafe};
use std::sync::Once;

#[derive(Clone, Debug, Default)]
pub struct Panic {
    pub message: String,
    pub file: String,
    pub line: u32,
}

impl Panic {
    /// A short stable identification: source file (basename) and the head of the message.
    pub fn signature(&self) -> String {
        let base = self.file.rsplit('/').next().unwrap_or("");
        let head: String = self
            .message
            .chars()
            .take_while(|c| *c != '\n')
            .map(|c| if c.is_whitespace() { '_' } else { c })
            .filter(|c| c.is_ascii_alphanumeric() || "_-.:<>=!()".contains(*c))
            .take(48)
            .collect();
        format!("{base}:{head}")
    }

    pub fn describe(&self) -> String {
        format!("{} at {}:{}", self.message, self.file, self.line)
    }
}

thread_local! {
    static LAST: RefCell<Option<Panic>> = const { RefCell::new(None) };
}

static INSTALL: Once = Once::new();

pub fn install_hook() {
    INSTALL.call_once(|| {
        std::panic::set_hook(Box::new(|info| {
            let message = if let Some(s) = info.payload().downcast_ref::<&str>() {
                s.to_string()
            } else if let Some(s) = info.payload().downcast_ref::<String>() {
                s.clone()
            } else {
                "<non-string panic payload>".to_string()
            };
            let (file, line) = info
                .location()
                .map(|l| (l.file().to_string(), l.line()))
                .unwrap_or_default();
            let _ = LAST.try_with(|slot| {
                *slot.borrow_mut() = Some(Panic { message, file, line });
            });
        }));
    });
}

/// Runs `f`, returning the captured panic if it panicked.
pub fn catch<T>(f: impl FnOnce() -> T) -> Result<T, Panic> {
    install_hook();
    let _ = LAST.try_with(|slot| slot.borrow_mut().take());
    match catch_unwind(AssertUnwindSafe(f)) {
        Ok(v) => Ok(v),
        Err(payload) => {
            let captured = LAST.try_with(|slot| slot.borrow_mut().take()).ok().flatten();
            Err(captured.unwrap_or_else(|| {
                let message = if let Some(s) = payload.downcast_ref::<&str>() {
                    s.to_string()
                } else if let Some(s) = payload.downcast_ref::<String>() {
                    s.clone()
                } else {
                    "<unknown panic>".to_string()
                };
                Panic {
                    message,
                    file: String::new(),
                    line: 0,
                }
            }))
        }
    }
}
