//! Shared machinery: contexts, reports, the proptest driver, replay files,
//! known-findings matching, panic capture and the sharded process runner.
use std::cell::RefCell;
use std::collections::{BTreeMap, BTreeSet};
use std::hash::{Hash, Hasher};
use std::path::{Path, PathBuf};

use proptest::strategy::Strategy;
use proptest::test_runner::{Config, RngSeed, TestCaseError, TestError, TestRunner};
use serde::{Deserialize, Serialize};
use serde_json::{json, Value};

pub mod bytespec;
pub mod panics;

pub const VERIF_ROOT: &str = "/verif";

/// Where the verification tree lives: `VERIF_ROOT` from the environment (set by
/// `./check` to its own directory, so that a snapshot elsewhere works), else /verif.
pub fn verif_root() -> PathBuf {
    std::env::var_os("VERIF_ROOT").map(PathBuf::from).unwrap_or_else(|| PathBuf::from(VERIF_ROOT))
}

#[derive(Clone, Copy, Debug, PartialEq, Eq, Serialize, Deserialize)]
#[serde(rename_all = "lowercase")]
pub enum Tier {
    Quick,
    Thorough,
}

impl Tier {
    pub fn name(self) -> &'static str {
        match self {
            Tier::Quick => "quick",
            Tier::Thorough => "thorough",
        }
    }

    /// Picks the quick or the thorough value.
    pub fn pick<T>(self, quick: T, thorough: T) -> T {
        match self {
            Tier::Quick => quick,
            Tier::Thorough => thorough,
        }
    }
}

#[derive(Clone, Debug)]
pub struct Known {
    pub property: String,
    pub sig: String,
    pub what: String,
}

#[derive(Clone, Debug)]
pub struct Ctx {
    pub id: String,
    pub tier: Tier,
    pub seed: u64,
    pub shard: u64,
    pub nshards: u64,
    pub known: Vec<Known>,
}

impl Ctx {
    /// Number of cases this shard should run out of `total` for the whole check.
    pub fn share(&self, total: u64) -> u32 {
        let base = total / self.nshards;
        let extra = if self.shard < total % self.nshards { 1 } else { 0 };
        (base + extra).max(1) as u32
    }

    /// Seed for one named generator within this shard.
    pub fn seed_for(&self, label: &str) -> u64 {
        let mut h = std::collections::hash_map::DefaultHasher::new();
        self.id.hash(&mut h);
        label.hash(&mut h);
        self.seed.hash(&mut h);
        self.shard.hash(&mut h);
        h.finish()
    }

    /// Whether this shard owns item `index` of an enumeration.
    pub fn owns(&self, index: u64) -> bool {
        index % self.nshards == self.shard
    }

    pub fn is_known(&self, sig: &str) -> bool {
        self.known.iter().any(|k| k.property == self.id && k.sig == sig)
    }
}

/// What a passing case reports about itself.
#[derive(Clone, Debug, Default)]
pub struct Outcome {
    pub nontrivial: bool,
    pub labels: Vec<&'static str>,
}

impl Outcome {
    pub fn trivial() -> Self {
        Default::default()
    }

    pub fn new(nontrivial: bool) -> Self {
        Outcome {
            nontrivial,
            labels: vec![],
        }
    }

    pub fn label(mut self, l: &'static str) -> Self {
        self.labels.push(l);
        self
    }

    pub fn label_if(mut self, cond: bool, l: &'static str) -> Self {
        if cond {
            self.labels.push(l);
        }
        self
    }
}

/// A failed case: a short stable signature and a human-readable message.
#[derive(Clone, Debug, Serialize, Deserialize)]
pub struct Fail {
    pub sig: String,
    pub msg: String,
}

impl Fail {
    pub fn new(sig: impl Into<String>, msg: impl Into<String>) -> Self {
        Fail {
            sig: sig.into(),
            msg: msg.into(),
        }
    }
}

pub type CaseResult = Result<Outcome, Fail>;

#[macro_export]
macro_rules! ensure {
    ($cond:expr, $sig:expr, $($fmt:tt)+) => {
        if !($cond) {
            return Err($crate::engine::Fail::new($sig, format!($($fmt)+)));
        }
    };
}

#[derive(Clone, Debug, Serialize, Deserialize)]
pub struct Found {
    pub sig: String,
    pub msg: String,
    pub replay: String,
    pub known: bool,
}

/// Partial (per shard) or merged report.
#[derive(Clone, Debug, Default, Serialize, Deserialize)]
pub struct Report {
    pub evaluations: u64,
    pub nontrivial_cases: u64,
    pub nontrivial_hashes: BTreeSet<u64>,
    /// Non-trivial cases counted by complete enumerations (distinct by construction).
    pub enumerated_nontrivial: u64,
    pub hash_cap_hit: bool,
    pub labels: BTreeMap<String, u64>,
    pub samples: Vec<Value>,
    pub sub: BTreeMap<String, Value>,
    pub excluded_known: BTreeMap<String, u64>,
    pub found: Vec<Found>,
    pub notes: Vec<String>,
    pub infra_errors: Vec<String>,
}

const HASH_CAP: usize = 400_000;
const SAMPLE_CAP: usize = 6;

pub fn hash_value<T: Serialize>(value: &T) -> u64 {
    let bytes = serde_json::to_vec(value).expect("case serialises");
    let mut h = std::collections::hash_map::DefaultHasher::new();
    bytes.hash(&mut h);
    h.finish()
}

impl Report {
    pub fn record_pass<C: Serialize>(&mut self, group: &str, case: &C, outcome: &Outcome) {
        self.evaluations += 1;
        *self.labels.entry(format!("{group}:cases")).or_insert(0) += 1;
        for l in &outcome.labels {
            *self.labels.entry(format!("{group}:{l}")).or_insert(0) += 1;
        }
        if outcome.nontrivial {
            self.nontrivial_cases += 1;
            *self.labels.entry(format!("{group}:nontrivial")).or_insert(0) += 1;
            if self.nontrivial_hashes.len() < HASH_CAP {
                // The group is part of the identity: the same input under two
                // sub-checks is two different cases.
                let mut h = std::collections::hash_map::DefaultHasher::new();
                group.hash(&mut h);
                hash_value(case).hash(&mut h);
                self.nontrivial_hashes.insert(h.finish());
            } else {
                self.hash_cap_hit = true;
            }
            let have = self
                .samples
                .iter()
                .filter(|s| s.get("group").and_then(|g| g.as_str()) == Some(group))
                .count();
            if have < 2 && self.samples.len() < SAMPLE_CAP * 4 {
                self.samples.push(json!({
                    "group": group,
                    "case": truncate_json(serde_json::to_value(case).unwrap(), 600),
                }));
            }
        }
    }

    /// Accounts for `evaluations` items of a complete enumeration (distinct by
    /// construction), `nontrivial` of which satisfy the non-triviality rule.
    pub fn add_enumerated(&mut self, group: &str, evaluations: u64, nontrivial: u64) {
        self.evaluations += evaluations;
        self.nontrivial_cases += nontrivial;
        self.enumerated_nontrivial += nontrivial;
        *self.labels.entry(format!("{group}:cases")).or_insert(0) += evaluations;
        *self.labels.entry(format!("{group}:nontrivial")).or_insert(0) += nontrivial;
    }

    pub fn add_sample(&mut self, group: &str, case: Value) {
        let have = self
            .samples
            .iter()
            .filter(|s| s.get("group").and_then(|g| g.as_str()) == Some(group))
            .count();
        if have < 2 {
            self.samples.push(json!({ "group": group, "case": truncate_json(case, 600) }));
        }
    }

    /// Records a failure found outside `drive` / `enumerate`.
    pub fn add_failure<C: Serialize>(&mut self, ctx: &Ctx, group: &str, case: &C, fail: Fail) {
        if ctx.is_known(&fail.sig) {
            *self.excluded_known.entry(fail.sig.clone()).or_insert(0) += 1;
        } else {
            report_failure(ctx, self, group, case, fail);
        }
    }

    pub fn note(&mut self, s: impl Into<String>) {
        self.notes.push(s.into());
    }

    pub fn merge(&mut self, other: Report) {
        self.evaluations += other.evaluations;
        self.nontrivial_cases += other.nontrivial_cases;
        self.nontrivial_hashes.extend(other.nontrivial_hashes);
        self.enumerated_nontrivial += other.enumerated_nontrivial;
        self.hash_cap_hit |= other.hash_cap_hit;
        for (k, v) in other.labels {
            *self.labels.entry(k).or_insert(0) += v;
        }
        for s in other.samples {
            let group = s.get("group").and_then(|g| g.as_str()).unwrap_or("").to_string();
            let have = self
                .samples
                .iter()
                .filter(|x| x.get("group").and_then(|g| g.as_str()) == Some(&group))
                .count();
            if have < 2 {
                self.samples.push(s);
            }
        }
        for (k, v) in other.sub {
            match self.sub.get_mut(&k) {
                None => {
                    self.sub.insert(k, v);
                }
                Some(existing) => merge_sub(existing, v),
            }
        }
        for (k, v) in other.excluded_known {
            *self.excluded_known.entry(k).or_insert(0) += v;
        }
        for f in other.found {
            if !self.found.iter().any(|x| x.sig == f.sig) {
                self.found.push(f);
            } else if !f.replay.contains("/regress/") && !self.found.iter().any(|x| x.replay == f.replay) {
                // Another shard already reported this signature: keep one replay file.
                let _ = std::fs::remove_file(&f.replay);
            }
        }
        for n in other.notes {
            if !self.notes.contains(&n) {
                self.notes.push(n);
            }
        }
        self.infra_errors.extend(other.infra_errors);
    }

    /// Adds `n` to a numeric entry of a named sub-report.
    pub fn sub_add(&mut self, name: &str, key: &str, n: u64) {
        let entry = self.sub.entry(name.to_string()).or_insert_with(|| json!({}));
        let cur = entry.get(key).and_then(|v| v.as_u64()).unwrap_or(0);
        entry[key] = json!(cur + n);
    }

    /// Sets a (non-additive) entry of a named sub-report.
    pub fn sub_set(&mut self, name: &str, key: &str, v: Value) {
        let entry = self.sub.entry(name.to_string()).or_insert_with(|| json!({}));
        entry[key] = v;
    }
}

fn merge_sub(into: &mut Value, from: Value) {
    if let (Some(a), Value::Object(b)) = (into.as_object_mut(), from) {
        for (k, v) in b {
            match (a.get(&k).and_then(|x| x.as_u64()), v.as_u64()) {
                (Some(x), Some(y)) if !k.starts_with("max_") && !k.starts_with("bound_") => {
                    a.insert(k, json!(x + y));
                }
                (Some(x), Some(y)) if k.starts_with("max_") => {
                    a.insert(k, json!(x.max(y)));
                }
                (Some(_), Some(_)) => {}
                _ => {
                    if let (Some(Value::Bool(x)), Value::Bool(y)) = (a.get(&k), &v) {
                        let both = *x && *y;
                        a.insert(k, json!(both));
                    } else {
                        a.entry(k).or_insert(v);
                    }
                }
            }
        }
    }
}

/// Shortens long strings / arrays inside a JSON value so that samples stay readable.
pub fn truncate_json(v: Value, max: usize) -> Value {
    match v {
        Value::String(s) if s.len() > max => {
            Value::String(format!("{}…(+{} chars)", &s[..max], s.len() - max))
        }
        Value::Array(a) => {
            let n = a.len();
            let mut out: Vec<Value> = a.into_iter().take(40).map(|x| truncate_json(x, max)).collect();
            if n > 40 {
                out.push(Value::String(format!("…(+{} items)", n - 40)));
            }
            Value::Array(out)
        }
        Value::Object(o) => Value::Object(o.into_iter().map(|(k, x)| (k, truncate_json(x, max))).collect()),
        other => other,
    }
}

#[derive(Clone, Debug, Serialize, Deserialize)]
pub struct ReplayFile {
    pub property: String,
    pub group: String,
    pub sig: String,
    pub msg: String,
    pub seed: u64,
    pub tier: Tier,
    pub case: Value,
    /// Build configuration of the worker that found it: "checked" (debug assertions and overflow
    /// checks on) or "nda" (neither).  A replay runs under the same one.
    #[serde(default)]
    pub profile: String,
}

/// The build configuration of this binary.
pub fn build_profile() -> &'static str {
    if cfg!(debug_assertions) {
        "checked"
    } else {
        "nda"
    }
}

pub fn replay_dir() -> PathBuf {
    verif_root().join("replays")
}

fn write_replay(ctx: &Ctx, group: &str, fail: &Fail, case: &Value) -> String {
    let dir = replay_dir();
    let _ = std::fs::create_dir_all(&dir);
    let file = ReplayFile {
        property: ctx.id.clone(),
        group: group.to_string(),
        sig: fail.sig.clone(),
        msg: fail.msg.clone(),
        seed: ctx.seed,
        tier: ctx.tier,
        case: case.clone(),
        profile: build_profile().to_string(),
    };
    let h = hash_value(&(group, case));
    let path = dir.join(format!("{}-{}-{:016x}.json", ctx.id, ctx.seed, h));
    let text = serde_json::to_string_pretty(&file).unwrap();
    if let Err(e) = std::fs::write(&path, text) {
        eprintln!("cannot write replay file {}: {e}", path.display());
    }
    path.display().to_string()
}

thread_local! {
    static CURRENT_GROUP: RefCell<String> = const { RefCell::new(String::new()) };
}
static JOURNAL: std::sync::OnceLock<PathBuf> = std::sync::OnceLock::new();

thread_local! {
    static GROUP_CLOCK: RefCell<(Option<std::time::Instant>, BTreeMap<String, u64>)> = const { RefCell::new((None, BTreeMap::new())) };
}

/// Names the sub-check the following cases belong to (used by the crash journal
/// and by the per-group time accounting).
pub fn set_group(group: &str) {
    let previous = CURRENT_GROUP.with(|g| std::mem::replace(&mut *g.borrow_mut(), group.to_string()));
    GROUP_CLOCK.with(|c| {
        let mut c = c.borrow_mut();
        if let Some(t0) = c.0.take() {
            *c.1.entry(previous).or_insert(0) += t0.elapsed().as_millis() as u64;
        }
        c.0 = Some(std::time::Instant::now());
    });
}

/// Adds the time this worker spent in each sub-check to the report, as
/// `<group>:worker_ms` labels (summed over the shards when reports are merged).
pub fn flush_group_times(rep: &mut Report) {
    set_group("");
    GROUP_CLOCK.with(|c| {
        for (group, ms) in std::mem::take(&mut c.borrow_mut().1) {
            if !group.is_empty() {
                *rep.labels.entry(format!("{group}:worker_ms")).or_insert(0) += ms;
            }
        }
    });
}

/// Turns on the crash journal: every case is written to `path` before it
/// runs, so that a case that kills the process (abort, segfault) can be
/// recovered by the parent.  Slow; only used when re-running a shard that crashed.
pub fn enable_journal(path: PathBuf) {
    let _ = JOURNAL.set(path);
}

#[derive(Serialize, Deserialize)]
pub struct JournalEntry {
    pub group: String,
    pub case: Value,
}

/// Runs `check` on `case`, turning a panic into a failure.
pub fn guarded<C: Serialize>(case: &C, check: &impl Fn(&C) -> CaseResult) -> CaseResult {
    if let Some(path) = JOURNAL.get() {
        let entry = JournalEntry {
            group: CURRENT_GROUP.with(|g| g.borrow().clone()),
            case: serde_json::to_value(case).unwrap_or(Value::Null),
        };
        let _ = std::fs::write(path, serde_json::to_vec(&entry).unwrap_or_default());
    }
    match panics::catch(|| check(case)) {
        Ok(r) => r,
        Err(p) => Err(Fail::new(format!("panic:{}", p.signature()), format!("panicked: {}", p.describe()))),
    }
}

/// Handles a confirmed failing (minimal) case: writes the replay file and
/// records it; returns whether the search may go on (known finding).
fn report_failure<C: Serialize>(ctx: &Ctx, rep: &mut Report, group: &str, case: &C, fail: Fail) {
    let value = serde_json::to_value(case).unwrap();
    let known = ctx.is_known(&fail.sig);
    if rep.found.iter().any(|f| f.sig == fail.sig) {
        return;
    }
    let replay = write_replay(ctx, group, &fail, &value);
    rep.found.push(Found {
        sig: fail.sig,
        msg: fail.msg,
        replay,
        known,
    });
}

/// Random generation with shrinking: runs `cases` cases of `strategy`
/// through `check`.  Failures whose signature is a listed known finding
/// are counted and excluded so that the search goes on behind them.
pub fn drive<C, S>(ctx: &Ctx, rep: &mut Report, group: &str, strategy: S, cases: u32, check: impl Fn(&C) -> CaseResult)
where
    C: std::fmt::Debug + Clone + Serialize,
    S: Strategy<Value = C>,
{
    drive_opts(ctx, rep, group, strategy, cases, check, false)
}

/// As [`drive`]; with `time_dependent` set, a failure that was observed but
/// does not reproduce when the (shrunk, then original) case is run again is
/// still reported, with the case as first observed: the oracle's verdict on
/// what it saw stands even though the environment (wall clock, file
/// change-times) has moved on.
pub fn drive_opts<C, S>(ctx: &Ctx, rep: &mut Report, group: &str, strategy: S, cases: u32, check: impl Fn(&C) -> CaseResult, time_dependent: bool)
where
    C: std::fmt::Debug + Clone + Serialize,
    S: Strategy<Value = C>,
{
    set_group(group);
    let config = Config {
        cases,
        failure_persistence: None,
        rng_seed: RngSeed::Fixed(ctx.seed_for(group)),
        max_shrink_iters: 4000,
        max_local_rejects: 1 << 20,
        max_global_rejects: 1 << 20,
        ..Config::default()
    };
    let mut runner = TestRunner::new(config);
    let state = RefCell::new((rep, false, None::<(C, Fail)>));
    let result = runner.run(&strategy, |case| {
        let r = guarded(&case, &check);
        let mut st = state.borrow_mut();
        let (rep, failed, first) = &mut *st;
        match r {
            Ok(outcome) => {
                if !*failed {
                    rep.record_pass(group, &case, &outcome);
                }
                Ok(())
            }
            Err(fail) => {
                if ctx.is_known(&fail.sig) {
                    if !*failed {
                        rep.evaluations += 1;
                        *rep.excluded_known.entry(fail.sig.clone()).or_insert(0) += 1;
                    }
                    return Ok(());
                }
                if !*failed {
                    rep.evaluations += 1;
                    *first = Some((case.clone(), fail.clone()));
                }
                *failed = true;
                Err(TestCaseError::fail(fail.sig))
            }
        }
    });
    let (rep, _, first) = state.into_inner();
    match result {
        Ok(()) => {}
        Err(TestError::Fail(_, minimal)) => {
            // Confirm outside proptest.
            match guarded(&minimal, &check) {
                Err(fail) => report_failure(ctx, rep, group, &minimal, fail),
                Ok(_) => match first {
                    Some((case, fail)) if time_dependent => {
                        let fail = match guarded(&case, &check) {
                            Err(again) => again,
                            Ok(_) => Fail::new(fail.sig, format!("{} [observed once; the case passed when run again: the outcome depends on the wall clock]", fail.msg)),
                        };
                        report_failure(ctx, rep, group, &case, fail);
                    }
                    _ => rep.infra_errors.push(format!("{group}: shrunk case did not fail when re-run outside proptest (flaky oracle?)")),
                },
            }
        }
        Err(TestError::Abort(why)) => {
            rep.infra_errors.push(format!("{group}: proptest aborted: {why}"));
        }
    }
}

/// Deterministic enumeration: runs `check` on every item this shard owns.
/// Stops at the first failure that is not a known finding.
pub fn enumerate<C>(
    ctx: &Ctx,
    rep: &mut Report,
    group: &str,
    items: impl Iterator<Item = C>,
    check: impl Fn(&C) -> CaseResult,
) -> bool
where
    C: Serialize,
{
    set_group(group);
    for (index, case) in items.enumerate() {
        if !ctx.owns(index as u64) {
            continue;
        }
        match guarded(&case, &check) {
            Ok(outcome) => rep.record_pass(group, &case, &outcome),
            Err(fail) => {
                rep.evaluations += 1;
                if ctx.is_known(&fail.sig) {
                    *rep.excluded_known.entry(fail.sig.clone()).or_insert(0) += 1;
                    continue;
                }
                report_failure(ctx, rep, group, &case, fail);
                return false;
            }
        }
    }
    true
}

/// Runs one explicit case (regression corpus, directed cases).
pub fn one<C: Serialize>(ctx: &Ctx, rep: &mut Report, group: &str, case: &C, check: impl Fn(&C) -> CaseResult) {
    set_group(group);
    match guarded(case, &check) {
        Ok(outcome) => rep.record_pass(group, case, &outcome),
        Err(fail) => {
            rep.evaluations += 1;
            if ctx.is_known(&fail.sig) {
                *rep.excluded_known.entry(fail.sig.clone()).or_insert(0) += 1;
            } else {
                report_failure(ctx, rep, group, case, fail);
            }
        }
    }
}

pub fn load_known() -> Vec<Known> {
    let path = verif_root().join("KNOWN_FINDINGS.txt");
    let Ok(text) = std::fs::read_to_string(path) else {
        return vec![];
    };
    let mut out = vec![];
    for line in text.lines() {
        let line = line.trim();
        let Some(rest) = line.strip_prefix("known:") else {
            continue;
        };
        let mut property = String::new();
        let mut sig = String::new();
        let mut what = vec![];
        for tok in rest.split_whitespace() {
            if let Some(p) = tok.strip_prefix("property=") {
                property = p.to_string();
            } else if let Some(s) = tok.strip_prefix("sig=") {
                sig = s.to_string();
            } else {
                what.push(tok);
            }
        }
        if !property.is_empty() && !sig.is_empty() {
            out.push(Known {
                property,
                sig,
                what: what.join(" "),
            });
        }
    }
    out
}

/// Replays the committed regression corpus of this property
/// (`/verif/replays/regress/<ID>/*.json`): minimal reproductions of past
/// findings and of seeded changes.  A case that fails again is a violation
/// whose replay file is the corpus file itself.
pub fn run_regress(ctx: &Ctx, rep: &mut Report, replay: fn(&Ctx, &str, &Value) -> CaseResult) {
    let dir = replay_dir().join("regress").join(&ctx.id);
    let Ok(entries) = std::fs::read_dir(&dir) else {
        return;
    };
    let mut files: Vec<PathBuf> = entries.filter_map(|e| e.ok().map(|e| e.path())).filter(|p| p.extension().map(|e| e == "json").unwrap_or(false)).collect();
    files.sort();
    for file in files {
        let Some(rf) = std::fs::read_to_string(&file).ok().and_then(|t| serde_json::from_str::<ReplayFile>(&t).ok()) else {
            rep.infra_errors.push(format!("unreadable regression file {}", file.display()));
            continue;
        };
        set_group(&rf.group);
        let r = guarded(&rf.case, &|c: &Value| replay(ctx, &rf.group, c));
        match r {
            Ok(outcome) => rep.record_pass("regress", &rf.case, &outcome),
            Err(fail) if fail.sig == "replay:unparseable" => rep.infra_errors.push(format!("{}: {}", file.display(), fail.msg)),
            Err(fail) => {
                rep.evaluations += 1;
                if ctx.is_known(&fail.sig) {
                    *rep.excluded_known.entry(fail.sig.clone()).or_insert(0) += 1;
                } else if !rep.found.iter().any(|f| f.sig == fail.sig) {
                    // A fresh replay file (it records the build configuration that failed); the
                    // corpus file itself when this is the ordinary build.
                    let replay = if build_profile() == "checked" { file.display().to_string() } else { write_replay(ctx, &rf.group, &fail, &rf.case) };
                    rep.found.push(Found {
                        sig: fail.sig,
                        msg: fail.msg,
                        replay,
                        known: false,
                    });
                }
            }
        }
    }
}

/// Records a case that killed its worker process (recovered from the crash journal).
pub fn record_crash(ctx: &Ctx, rep: &mut Report, entry: JournalEntry, how: &str) {
    let fail = Fail::new(
        format!("crash:{how}:{}", entry.group),
        format!("the worker process was killed ({how}) while running this case: memory-safety check, abort or stack overflow in the code under test"),
    );
    if rep.found.iter().any(|f| f.sig == fail.sig) {
        return;
    }
    let replay = write_replay(ctx, &entry.group, &fail, &entry.case);
    rep.found.push(Found {
        sig: fail.sig,
        msg: fail.msg,
        replay,
        known: false,
    });
}
