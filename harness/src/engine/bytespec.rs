//! Compact, shrinkable descriptions of byte strings and of the ways to cut
//! them into pieces.  A case stores the description; the bytes are a pure
//! function of it.
use proptest::prelude::*;
use serde::{Deserialize, Serialize};

/// Bytes that serialise as a hexadecimal string.
#[derive(Clone, Debug, Default, PartialEq, Eq, Hash)]
pub struct Hex(pub Vec<u8>);

impl Serialize for Hex {
    fn serialize<S: serde::Serializer>(&self, s: S) -> Result<S::Ok, S::Error> {
        s.serialize_str(&to_hex(&self.0))
    }
}

impl<'de> Deserialize<'de> for Hex {
    fn deserialize<D: serde::Deserializer<'de>>(d: D) -> Result<Self, D::Error> {
        let s = String::deserialize(d)?;
        from_hex(&s).map(Hex).ok_or_else(|| serde::de::Error::custom("bad hex"))
    }
}

pub fn to_hex(bytes: &[u8]) -> String {
    let mut s = String::with_capacity(bytes.len() * 2);
    for b in bytes {
        s.push_str(&format!("{b:02x}"));
    }
    s
}

pub fn from_hex(s: &str) -> Option<Vec<u8>> {
    if s.len() % 2 != 0 {
        return None;
    }
    (0..s.len() / 2).map(|i| u8::from_str_radix(s.get(2 * i..2 * i + 2)?, 16).ok()).collect()
}

/// Short rendering for messages.
pub fn show(bytes: &[u8]) -> String {
    if bytes.len() <= 48 {
        to_hex(bytes)
    } else {
        format!("{}…{} ({} bytes)", to_hex(&bytes[..24]), to_hex(&bytes[bytes.len() - 8..]), bytes.len())
    }
}

#[derive(Clone, Debug, PartialEq, Eq, Hash, Serialize, Deserialize)]
pub enum Seg {
    /// Literal bytes.
    Lit(Hex),
    /// `len` copies of `byte`.
    Fill { byte: u8, len: u32 },
    /// `len` pseudo-random bytes, a pure function of `seed`, drawn from an
    /// alphabet: 0 = uniform, 1 = {FE, FD, 00, FC, other} mix, 2 = {FE, FD} only.
    Noise { seed: u32, len: u32, alphabet: u8 },
}

#[derive(Clone, Debug, Default, PartialEq, Eq, Hash, Serialize, Deserialize)]
pub struct ByteSpec(pub Vec<Seg>);

fn splitmix(state: &mut u64) -> u64 {
    *state = state.wrapping_add(0x9e3779b97f4a7c15);
    let mut z = *state;
    z = (z ^ (z >> 30)).wrapping_mul(0xbf58476d1ce4e5b9);
    z = (z ^ (z >> 27)).wrapping_mul(0x94d049bb133111eb);
    z ^ (z >> 31)
}

impl Seg {
    pub fn len(&self) -> usize {
        match self {
            Seg::Lit(h) => h.0.len(),
            Seg::Fill { len, .. } | Seg::Noise { len, .. } => *len as usize,
        }
    }

    pub fn append_to(&self, out: &mut Vec<u8>) {
        match self {
            Seg::Lit(h) => out.extend_from_slice(&h.0),
            Seg::Fill { byte, len } => out.extend(std::iter::repeat(*byte).take(*len as usize)),
            Seg::Noise { seed, len, alphabet } => {
                let mut st = (*seed as u64) ^ 0x5851f42d4c957f2d;
                out.reserve(*len as usize);
                let mut i = 0usize;
                while i < *len as usize {
                    let r = splitmix(&mut st);
                    for k in 0..8 {
                        if i >= *len as usize {
                            break;
                        }
                        let b = (r >> (8 * k)) as u8;
                        let v = match alphabet {
                            0 => b,
                            1 => match b % 8 {
                                0 | 1 => 0xFE,
                                2 | 3 => 0xFD,
                                4 => 0x00,
                                5 => 0xFC,
                                _ => b,
                            },
                            _ => {
                                if b & 1 == 0 {
                                    0xFE
                                } else {
                                    0xFD
                                }
                            }
                        };
                        out.push(v);
                        i += 1;
                    }
                }
            }
        }
    }
}

impl ByteSpec {
    pub fn len(&self) -> usize {
        self.0.iter().map(Seg::len).sum()
    }

    pub fn bytes(&self) -> Vec<u8> {
        let mut out = Vec::with_capacity(self.len());
        for s in &self.0 {
            s.append_to(&mut out);
        }
        out
    }

    pub fn lit(bytes: &[u8]) -> Self {
        ByteSpec(vec![Seg::Lit(Hex(bytes.to_vec()))])
    }
}

/// Tokens that matter to the HCOBS codec.
pub fn stuffy_literal() -> impl Strategy<Value = Seg> {
    prop_oneof![
        Just(vec![0xFE, 0xFD]),
        Just(vec![0xFE]),
        Just(vec![0xFD]),
        Just(vec![0xFE, 0xFE, 0xFD]),
        Just(vec![0xFD, 0xFE]),
        Just(vec![0xFE, 0xFD, 0xFE, 0xFD]),
        Just(vec![0xFE, 0xFD, 0xFD]),
        Just(vec![0xFC]),
        Just(vec![0x00]),
        proptest::collection::vec(any::<u8>(), 1..6),
    ]
    .prop_map(|v| Seg::Lit(Hex(v)))
}

fn seg_of_len(len: impl Strategy<Value = u32>) -> impl Strategy<Value = Seg> {
    (len, any::<u32>(), 0u8..6, any::<u8>()).prop_map(|(len, seed, kind, byte)| match kind {
        0 => Seg::Fill { byte: 0x41, len },
        1 => Seg::Fill {
            byte: [0xFE, 0xFD, 0x00, 0xFC][(byte % 4) as usize],
            len,
        },
        2 => Seg::Noise { seed, len, alphabet: 0 },
        3 | 4 => Seg::Noise { seed, len, alphabet: 1 },
        _ => Seg::Noise { seed, len, alphabet: 2 },
    })
}

/// Segment lengths biased towards the HCOBS chunk limits (252 first, 64008 later).
pub fn hcobs_len(allow_large: bool) -> BoxedStrategy<u32> {
    if allow_large {
        prop_oneof![
            6 => 0u32..=8,
            5 => 244u32..=260,
            2 => prop_oneof![Just(250u32), Just(251u32), Just(252u32), Just(253u32)],
            3 => 0u32..=600,
            2 => 0u32..=4096,
            2 => 63_990u32..=64_030,
            2 => prop_oneof![Just(64_006u32), Just(64_007u32), Just(64_008u32), Just(64_009u32)],
            2 => 64_254u32..=64_266,
            1 => 0u32..=140_000,
        ]
        .boxed()
    } else {
        prop_oneof![
            6 => 0u32..=8,
            5 => 244u32..=260,
            2 => prop_oneof![Just(250u32), Just(251u32), Just(252u32), Just(253u32)],
            3 => 0u32..=600,
            1 => 0u32..=4096,
        ]
        .boxed()
    }
}

/// HCOBS-relevant payloads: boundary-biased segments joined by stuff-like tokens.
pub fn hcobs_payload(allow_large: bool) -> impl Strategy<Value = ByteSpec> {
    let piece = prop_oneof![
        3 => seg_of_len(hcobs_len(allow_large)),
        2 => stuffy_literal(),
    ];
    proptest::collection::vec(piece, 0..8).prop_map(ByteSpec)
}

/// Small payloads (for streams of many records).
pub fn small_payload() -> impl Strategy<Value = ByteSpec> {
    let piece = prop_oneof![
        3 => seg_of_len(prop_oneof![4 => 0u32..=6, 2 => 0u32..=40, 1 => 240u32..=270]),
        2 => stuffy_literal(),
    ];
    proptest::collection::vec(piece, 0..4).prop_map(ByteSpec)
}

/// A way to pick a cut position in a byte string.
#[derive(Clone, Debug, PartialEq, Eq, Hash, Serialize, Deserialize)]
pub enum Cut {
    /// Fraction of the length (in 1/65536).
    Frac(u16),
    /// Around the `which`-th interesting position (see [`resolve_cuts`]), plus `delta - 2`.
    Near { which: u8, delta: u8 },
    /// Absolute position (clipped to the length).
    Abs(u32),
}

pub fn cut() -> impl Strategy<Value = Cut> {
    prop_oneof![
        3 => any::<u16>().prop_map(Cut::Frac),
        3 => (any::<u8>(), 0u8..5).prop_map(|(which, delta)| Cut::Near { which, delta }),
        1 => prop_oneof![0u32..8, 250u32..258, 64_000u32..64_020, 64_255u32..64_270].prop_map(Cut::Abs),
    ]
}

pub fn cuts(max: usize) -> impl Strategy<Value = Vec<Cut>> {
    proptest::collection::vec(cut(), 0..=max)
}

/// Positions of interest in `bytes`: every FE FD occurrence (first byte).
pub fn stuff_positions(bytes: &[u8]) -> Vec<usize> {
    let mut v = vec![];
    let mut i = 0;
    while i + 1 < bytes.len() {
        if bytes[i] == 0xFE && bytes[i + 1] == 0xFD {
            v.push(i);
            i += 2;
        } else {
            i += 1;
        }
    }
    v
}

/// Resolves cut descriptions into a sorted, deduplicated list of interior
/// positions; `interesting` are the anchor positions for [`Cut::Near`].
pub fn resolve_cuts(cuts: &[Cut], len: usize, interesting: &[usize]) -> Vec<usize> {
    let mut out: Vec<usize> = vec![];
    for c in cuts {
        let p = match c {
            Cut::Frac(f) => ((*f as usize) * (len + 1)) >> 16,
            Cut::Near { which, delta } => {
                if interesting.is_empty() {
                    ((*which as usize) * (len + 1)) >> 8
                } else {
                    let idx = ((*which as usize) * interesting.len()) >> 8;
                    (interesting[idx] + *delta as usize).saturating_sub(2)
                }
            }
            Cut::Abs(p) => *p as usize,
        };
        let p = p.min(len);
        if p > 0 && p < len {
            out.push(p);
        }
    }
    out.sort_unstable();
    out.dedup();
    out
}

/// Splits `bytes` at the given interior positions.
pub fn split_at_cuts<'a>(bytes: &'a [u8], cuts: &[usize]) -> Vec<&'a [u8]> {
    let mut out = vec![];
    let mut last = 0;
    for &c in cuts {
        out.push(&bytes[last..c]);
        last = c;
    }
    out.push(&bytes[last..]);
    out
}

/// A copy of `bytes` placed so that its first byte's address is `misalign` modulo 16
/// (allocator- and fuzzer-provided buffers are always aligned; callers' slices are not).
pub struct Placed {
    buf: Vec<u8>,
    start: usize,
    len: usize,
}

impl Placed {
    pub fn new(bytes: &[u8], misalign: usize) -> Placed {
        let mut buf = vec![0xA5u8; bytes.len() + 32];
        let base = buf.as_ptr() as usize;
        let start = (16 - base % 16) % 16 + misalign % 16;
        buf[start..start + bytes.len()].copy_from_slice(bytes);
        Placed { buf, start, len: bytes.len() }
    }

    pub fn bytes(&self) -> &[u8] {
        &self.buf[self.start..self.start + self.len]
    }

    pub fn bytes_mut(&mut self) -> &mut [u8] {
        &mut self.buf[self.start..self.start + self.len]
    }

    /// A deterministic misalignment for a byte string: a function of its contents, so that
    /// the same case is always placed the same way.
    pub fn misalign_of(bytes: &[u8]) -> usize {
        let mut h = bytes.len();
        for b in bytes.iter().take(64) {
            h = h.wrapping_mul(31).wrapping_add(*b as usize);
        }
        h % 16
    }
}
