//! C02 — HCOBS output never contains the stuff sequence, is split-independent, bounded.
use proptest::prelude::*;
use serde::{Deserialize, Serialize};
use serde_json::Value;

use super::codec::{self, CodecCase};
use super::hcobs_small::{self, Focus, SmallEnc};
use super::{parse_case, PropDef};
use crate::engine::bytespec::{stuff_positions, Seg};
use crate::engine::{self, CaseResult, Ctx, Fail, Outcome, Report, Tier};
use crate::refimpl::hcobs_ref;

pub fn check_case(case: &CodecCase) -> CaseResult {
    let plain = case.payload.bytes();
    let pre = &case.pre.0;
    let enc = codec::run_encoder(&plain, pre, &case.enc, false)?;
    if enc.output.len() < pre.len() || enc.output[..pre.len()] != pre[..] {
        return Err(Fail::new("encode:prefix-lost", "bytes already in the iovec handed to new_from_iovec are not at the front of the output"));
    }
    let out = &enc.output[pre.len()..];
    if let Some(at) = hcobs_ref::contains_stuff(out) {
        return Err(Fail::new(
            "stuff-in-output",
            format!("encoded output of a {}-byte message contains FE FD at offset {at} (early-drained part: {} bytes)", plain.len(), enc.drained_early),
        ));
    }
    // The public scan the encoder relies on: first FE FD of the input, nothing in the output.
    let first = stuff_positions(&plain).first().copied();
    if hcobs::find_stuff_sequence(&plain) != first || hcobs::find_stuff_sequence(out).is_some() {
        return Err(Fail::new(
            "find_stuff_sequence",
            format!("find_stuff_sequence gives {:?} on the input (first FE FD at {first:?}) and {:?} on the output", hcobs::find_stuff_sequence(&plain), hcobs::find_stuff_sequence(out)),
        ));
    }
    let single = codec::encode_once(&plain);
    if out != &single[..] {
        return Err(Fail::new(
            "split-dependent",
            codec::mismatch("output depends on how the input was fed (compared with one encode_copy call on a fresh encoder)", out, &single),
        ));
    }
    let bound = hcobs_ref::length_bound(plain.len());
    if out.len() > bound {
        return Err(Fail::new("length-bound", format!("{} input bytes encoded to {} bytes, bound is {bound}", plain.len(), out.len())));
    }
    // A FE that is the last byte of a full chunk is where a stuff sequence could straddle a header.
    let fe_at_chunk_end = (plain.len() >= 252 && plain[251] == 0xFE) || (plain.len() >= 252 + 64008 && plain[252 + 64007] == 0xFE);
    let nontrivial = (enc.obs.pieces >= 2 && enc.obs.methods_used.len() >= 2) || fe_at_chunk_end;
    Ok(Outcome::new(nontrivial)
        .label_if(fe_at_chunk_end, "FE_at_last_position_of_full_chunk")
        .label_if(enc.obs.methods_used.len() >= 2, "mixed_methods")
        .label_if(enc.obs.drains_done > 0, "drained_in_flight")
        .label_if(!stuff_positions(&plain).is_empty(), "has_stuff_sequence")
        .label_if(plain.len() >= 252 + 64008, "payload>=64260"))
}

/// Two encoders alive at once, started from an iovec and from its clone and fed alternately
/// with different inputs: what one is fed must not show in the other's output.
pub fn check_interleaved(case: &CodecCase) -> CaseResult {
    use hcobs::Encoder;
    use owning_iovec::OwningIovec;
    let p = case.payload.bytes();
    let q: Vec<u8> = p.iter().rev().map(|b| b.wrapping_add(1)).chain([0xFE, 0xFD, 0x51]).collect();
    let pre = &case.pre.0;
    let mut first = OwningIovec::new();
    first.push_copy(pre);
    let second = first.clone();
    let mut a = Encoder::new_from_iovec(first);
    let mut b = Encoder::new_from_iovec(second);
    let cuts_p = crate::engine::bytespec::resolve_cuts(&case.enc.cuts, p.len(), &codec::plain_interesting(&p));
    let cuts_q = crate::engine::bytespec::resolve_cuts(&case.dec.cuts, q.len(), &codec::plain_interesting(&q));
    let pieces_p = crate::engine::bytespec::split_at_cuts(&p, &cuts_p);
    let pieces_q = crate::engine::bytespec::split_at_cuts(&q, &cuts_q);
    for i in 0..pieces_p.len().max(pieces_q.len()) {
        if let Some(piece) = pieces_p.get(i) {
            if i % 2 == 0 {
                a.encode_copy(piece);
            } else {
                a.encode(piece);
            }
        }
        if let Some(piece) = pieces_q.get(i) {
            if i % 3 == 0 {
                b.encode(piece);
            } else {
                b.encode_copy(piece);
            }
        }
    }
    let out_a = a.finish().flatten().map_err(|_| Fail::new("interleaved:pending", "placeholder pending after finish".to_string()))?;
    let out_b = b.finish().flatten().map_err(|_| Fail::new("interleaved:pending", "placeholder pending after finish".to_string()))?;
    for (name, out, plain) in [("first", &out_a, &p), ("second", &out_b, &q)] {
        let want: Vec<u8> = [&pre[..], &hcobs_ref::encode(plain, hcobs_ref::LIMIT_FIRST, hcobs_ref::LIMIT_LATER)[..]].concat();
        if *out != want {
            return Err(Fail::new(
                "interleaved:output",
                codec::mismatch(&format!("two encoders started from an iovec and its clone and fed alternately: output of the {name} one"), out, &want),
            ));
        }
    }
    Ok(Outcome::new(pieces_p.len() >= 2 && pieces_q.len() >= 2).label_if(!pre.is_empty(), "common_prefix"))
}

/// Length sweep: the bound is checked for every length in a range, for
/// three fillings (stuff-free, all FE, FE FD pairs).
#[derive(Clone, Debug, Serialize, Deserialize)]
pub struct LenCase {
    pub len: u32,
    pub filling: u8,
}

fn check_len(case: &LenCase) -> CaseResult {
    let len = case.len as usize;
    let plain: Vec<u8> = match case.filling {
        0 => vec![0x41; len],
        1 => vec![0xFE; len],
        _ => (0..len).map(|i| if i % 2 == 0 { 0xFE } else { 0xFD }).collect(),
    };
    let out = codec::encode_once(&plain);
    let bound = hcobs_ref::length_bound(len);
    if out.len() > bound {
        return Err(Fail::new("length-bound", format!("{len} input bytes (filling {}) encoded to {} bytes, bound is {bound}", case.filling, out.len())));
    }
    if let Some(at) = hcobs_ref::contains_stuff(&out) {
        return Err(Fail::new("stuff-in-output", format!("{len} input bytes (filling {}): output contains FE FD at {at}", case.filling)));
    }
    Ok(Outcome::new(len >= 252).label_if(out.len() == bound, "bound_attained"))
}

fn sweep_lengths(tier: Tier) -> Vec<u32> {
    let mut v: Vec<u32> = (0..=600).collect();
    let top = tier.pick(3, 12);
    for k in 0..=top {
        for d in -2i64..=2 {
            let l = 252 + k as i64 * 64008 + d;
            if l >= 0 {
                v.push(l as u32);
            }
        }
    }
    v
}

/// Payloads that put FE exactly at the last position of a full chunk.
fn boundary_case() -> impl Strategy<Value = CodecCase> {
    (codec::codec_case(false), 0u8..6, any::<u8>()).prop_map(|(mut case, kind, tail)| {
        let mut segs = vec![];
        let first_fill = if kind % 2 == 0 { 251 } else { 250 };
        segs.push(Seg::Fill { byte: 0x42, len: first_fill });
        segs.push(Seg::Lit(crate::engine::bytespec::Hex(vec![0xFE, 0xFD, tail])));
        if kind >= 4 {
            // Also reach the end of the first 64008-byte chunk.
            let used = first_fill as usize + 3;
            let target = 252 + 64008 - 1;
            segs.push(Seg::Fill { byte: 0x43, len: (target - used) as u32 });
            segs.push(Seg::Lit(crate::engine::bytespec::Hex(vec![0xFE, 0xFD, 0xFE, 0xFD])));
        }
        segs.extend(case.payload.0.drain(..).take(2));
        case.payload.0 = segs;
        case
    })
}

pub fn run(ctx: &Ctx, rep: &mut Report) {
    hcobs_small::enumerate_enc(ctx, rep, Focus::StuffFreeAndSplitIndependent, ctx.tier.pick(8, 10));
    let lens = sweep_lengths(ctx.tier);
    let items = lens.iter().flat_map(|&len| (0u8..3).map(move |filling| LenCase { len, filling }));
    engine::enumerate(ctx, rep, "length-sweep", items, check_len);
    let cases = ctx.share(ctx.tier.pick(80_000, 1_600_000));
    engine::drive(ctx, rep, "random", codec::codec_case(false), cases, check_case);
    let cases = ctx.share(ctx.tier.pick(24_000, 240_000));
    engine::drive(ctx, rep, "chunk-boundary", boundary_case(), cases, check_case);
    let cases = ctx.share(ctx.tier.pick(8_000, 120_000));
    engine::drive(ctx, rep, "random-large", codec::codec_case(true), cases, check_case);
    let cases = ctx.share(ctx.tier.pick(24_000, 320_000));
    engine::drive(ctx, rep, "power-of-two-aligned", codec::aligned_case(), cases, check_case);
    let cases = ctx.share(ctx.tier.pick(20_000, 400_000));
    engine::drive(ctx, rep, "interleaved-encoders", codec::codec_case(false), cases, check_interleaved);
}

fn replay(_ctx: &Ctx, group: &str, case: &Value) -> CaseResult {
    if group.starts_with("small-scope") {
        hcobs_small::check_small_enc(&parse_case::<SmallEnc>(case)?, Focus::StuffFreeAndSplitIndependent)
    } else if group == "interleaved-encoders" {
        check_interleaved(&parse_case::<CodecCase>(case)?)
    } else if group == "length-sweep" {
        check_len(&parse_case::<LenCase>(case)?)
    } else {
        check_case(&parse_case::<CodecCase>(case)?)
    }
}

pub fn def() -> PropDef {
    PropDef {
        id: "C02",
        rule: "Same case type and generators as C01 (payload description + encoder feeding plan with cuts, input methods and drain actions), plus a generator that places FE FD across the last position of the 252-byte and 64008-byte chunks, plus the power-of-two-aligned group (FE FD after gaps of k*2^p-1+d bytes, p = 6..16, counted from the input start, the end of the 252-byte chunk or the previous stuff sequence; half of the cases fed in one call), plus a complete length sweep 0..600 and 252+k*64008+{-2..2} with three fillings. Scripted readers behind encode_read deliver short reads, Interrupted errors and (one step in nine) a hard error; the input bytes sit at an address 0..15 modulo 16. interleaved-encoders: two encoders alive at once, started from an iovec and its clone, fed alternately with the payload and a different byte string; each output must be the common prefix followed by the reference encoding of its own input. Oracles: (0) hcobs::find_stuff_sequence returns the first FE FD of the input, (a) no FE FD anywhere in early-drained ++ finish() bytes, (b) those bytes equal the output of one encode_copy call on a fresh Encoder, (c) length <= len + 1 + 2*ceil(len/64008). Non-trivial: >= 2 calls with >= 2 distinct input methods, or FE at the last position of a full chunk; for the sweep, length >= 252. Distinct: hash of the serialised case. The small-scope group enumerates all strings over {FE,FD,00} up to max_len x four tiny limit pairs x 2-way cuts x copy/borrow through the hcobs::verif hook.",
        assumptions: &["the single-call reference output is produced by the same Encoder (the comparison with an independent reference codec is C07)"],
        exhaustive_note: Some("small-scope-encoder and length-sweep: complete enumerations"),
        shards: |t: Tier| t.pick(8, 16),
        run,
        replay,
    }
}
