//! Model-based state machine for OwningIovec (C03, C04, C05, C10, C20):
//! operations with generated arguments are applied to real iovecs and to a
//! shadow byte-pipe model; after every operation every live iovec is compared
//! with its model, and (optionally) every exposed slice is checked against
//! the registry of live arena chunks.
use std::io::{IoSlice, Read};
use std::num::NonZeroUsize;
use std::sync::OnceLock;

use owning_iovec::{AnchoredSlice, Backref, ByteArena, OwningIovec};
use proptest::prelude::*;
use serde::{Deserialize, Serialize};

use crate::engine::bytespec::show;
use crate::engine::{panics, Fail};

pub const POOL_LEN: usize = 1 << 22;
const PLACEHOLDER: u8 = 0xEE;

/// Harness-owned bytes that outlive every case; values stay below 0x80 so
/// that placeholder patterns (0xEE), fills (0xA0..) and the poison of
/// released chunks (0xFC) can never be mistaken for them.
pub fn pool() -> &'static [u8] {
    static POOL: OnceLock<&'static [u8]> = OnceLock::new();
    POOL.get_or_init(|| {
        let v: Vec<u8> = (0..POOL_LEN).map(|i| ((i * 31 + i / 127) % 127) as u8 + 1).collect();
        Box::leak(v.into_boxed_slice())
    })
}

fn pool_slice(off: u32, len: u32) -> &'static [u8] {
    let p = pool();
    let len = (len as usize).min(POOL_LEN / 2);
    let off = (off as usize) % (POOL_LEN - len);
    &p[off..off + len]
}

#[derive(Clone, Debug, PartialEq, Eq, Hash, Serialize, Deserialize)]
pub enum Op {
    PushBorrowed { slot: u8, off: u32, len: u32 },
    PushCopy { slot: u8, off: u32, len: u32 },
    Push { slot: u8, off: u32, len: u32 },
    Extend { slot: u8, parts: Vec<(u32, u16)> },
    FromSlices { parts: Vec<(u32, u16)>, collect: bool },
    /// register_patch with a pattern of `big` bytes when `big > 0`, of `len % 5` bytes otherwise.
    Register {
        slot: u8,
        len: u8,
        #[serde(default)]
        big: u16,
    },
    Backfill { slot: u8, which: u8 },
    Clear { slot: u8 },
    Take { slot: u8 },
    CloneSlot { slot: u8 },
    /// clone() even while placeholders are pending (the copy must keep hiding them); the
    /// outstanding backref tokens whose bit is set in `give` go with the copy (a token is used
    /// once, on either of the two), the others stay with the original.
    CloneWithPending { slot: u8, give: u8 },
    DropSlot { slot: u8 },
    Flush { slot: u8 },
    Ensure { slot: u8, len: u32 },
    /// Use up the slot's current arena chunk until `leave` bytes remain: by a push_copy
    /// into the slot (`via_copy`, so that the last slice ends at the arena's write
    /// position) or by a dropped read_n allocation.
    FillChunk { slot: u8, off: u32, leave: u16, via_copy: bool },
    /// `push_anchor(Default::default())`: an anchor that holds nothing (callers that push borrowed
    /// data of their own do this); must change nothing observable.
    PushEmptyAnchor { slot: u8 },
    TakeArenaBack { slot: u8 },
    SwapArenas { a: u8, b: u8 },
    NewFromArena { slot: u8 },
    /// read_n into the slot's arena, push the first part (borrowed + anchor), hold the last `keep` bytes.
    AnchoredPush { slot: u8, off: u32, len: u32, keep: u16 },
    /// read_n one record into the slot's arena, then push several *windows* of it borrowed
    /// (each `(start, len)` in 1/256ths of the record: they may come in any order, overlap or
    /// repeat - a header pushed after a body, the same record twice) and the record's anchor once at the end.
    AnchoredWindows { slot: u8, off: u32, len: u32, windows: Vec<(u8, u8)> },
    /// `extend` with an iterator supplied by the caller that panics after yielding `after` slices
    /// (the panic is caught and the iovec is used again).
    ExtendPanicking { slot: u8, parts: Vec<(u32, u16)>, after: u8 },
    /// read_n into the slot's arena and keep the AnchoredSlice.
    Hold { slot: u8, off: u32, len: u32 },
    HeldSplit { idx: u8, mid: u16 },
    HeldSkip { idx: u8, k: u16 },
    HeldDropSuffix { idx: u8, k: u16 },
    HeldClone { idx: u8 },
    HeldDrop { idx: u8 },
    HeldTake { idx: u8 },
    HeldPush { idx: u8, slot: u8 },
    Consume { slot: u8, k: u8 },
    Advance { slot: u8, n: u32 },
    AdvanceFrac { slot: u8, f: u8 },
    PopFront { slot: u8 },
    Read { slot: u8, n: u16 },
    /// The provided methods of `std::io::Read` on the consumer: read_to_end, io::copy, read_exact, read_vectored, take(n).read_to_end.
    ReadVia { slot: u8, how: u8, n: u16 },
}

#[derive(Clone, Debug, PartialEq, Eq, Hash, Serialize, Deserialize)]
pub struct History {
    pub ops: Vec<Op>,
    /// Order in which the surviving objects are dropped at the end (indices taken modulo what is left).
    pub drop_order: Vec<u8>,
}

#[derive(Clone, Copy, Debug)]
pub struct Profile {
    /// Compare every live iovec with its pipe model after every operation.
    pub check_pipe: bool,
    /// Check every exposed slice against the live-chunk registry (quarantine on).
    pub check_mem: bool,
    /// Check that the live-chunk counters return to their initial values.
    pub check_leak: bool,
}

#[derive(Clone, Default)]
struct Model {
    /// Every byte appended since the last clear.
    stream: Vec<u8>,
    consumed: usize,
    /// Placeholders not yet backfilled: (offset, len).
    pending: Vec<(usize, usize)>,
    /// Highest stream offset (exclusive) ever observable by a consumer.
    observed: usize,
}

struct Slot {
    io: OwningIovec<'static>,
    m: Model,
    /// Outstanding backrefs: (token, offset, len) in registration order.
    refs: Vec<(Backref, usize, usize)>,
    /// Identity for classification (clone / take lineage).
    lineage: u32,
    mutated_since_split: bool,
    merged_or_backfilled_since_split: bool,
    /// Some anchored (read_n) bytes were pushed into this iovec.
    has_anchored: bool,
    /// Two clones of one AnchoredSlice were pushed here: owned slices may legitimately alias.
    may_alias: bool,
}

struct Held {
    slice: AnchoredSlice,
    expect: Vec<u8>,
    /// Slices from different `read_n` calls must never overlap.
    origin: u32,
    /// `clone()` was called on this slice or an ancestor: siblings alias it.
    cloned: bool,
}

#[derive(Clone, Debug, Default)]
pub struct Stats {
    pub ops: usize,
    pub merges: usize,
    pub partial_byte_consumptions: usize,
    pub chunk_creations: usize,
    pub chunk_fills: usize,
    pub clones_with_pending: usize,
    pub anchored_pushes: usize,
    pub anchored_partially_consumed: bool,
    pub max_pending: usize,
    pub out_of_order_fills: usize,
    pub out_of_order_with_3_pending: bool,
    pub consume_while_pending: usize,
    pub clones: usize,
    pub takes: usize,
    pub taken_arenas: usize,
    pub split_both_sides_mutated: bool,
    pub retired_while_others_alive: usize,
    pub held_ops: usize,
    pub slots_peak: usize,
    pub bytes_appended: usize,
}

struct World {
    slots: Vec<Slot>,
    held: Vec<Held>,
    spare_arenas: Vec<ByteArena>,
    stats: Stats,
    next_lineage: u32,
    next_origin: u32,
    profile: Profile,
    /// (lineage a, lineage b) pairs produced by clone / take, to classify C20 cases.
    splits: Vec<(u32, u32)>,
    max_chunk_id: Option<u64>,
}

const MAX_SLOTS: usize = 4;
const MAX_HELD: usize = 6;

fn fail(sig: &str, msg: String) -> Fail {
    Fail::new(sig, msg)
}

fn slices_of<'a>(io: &'a OwningIovec<'static>) -> Vec<&'a [u8]> {
    io.stable_prefix().iter().map(|s| -> &[u8] { s }).collect()
}

impl World {
    fn new(profile: Profile) -> Self {
        World {
            slots: vec![],
            held: vec![],
            spare_arenas: vec![],
            stats: Stats::default(),
            next_lineage: 0,
            next_origin: 0,
            profile,
            splits: vec![],
            max_chunk_id: owning_iovec::verif::live_chunks().iter().map(|c| c.id).max(),
        }
    }

    fn new_slot(&mut self, io: OwningIovec<'static>, m: Model, refs: Vec<(Backref, usize, usize)>) -> usize {
        self.next_lineage += 1;
        self.slots.push(Slot {
            io,
            m,
            refs,
            lineage: self.next_lineage,
            mutated_since_split: false,
            merged_or_backfilled_since_split: false,
            has_anchored: false,
            may_alias: false,
        });
        self.stats.slots_peak = self.stats.slots_peak.max(self.slots.len());
        self.slots.len() - 1
    }

    fn pick_slot(&mut self, slot: u8) -> usize {
        if self.slots.is_empty() {
            self.new_slot(OwningIovec::new(), Model::default(), vec![]);
        }
        (slot as usize * self.slots.len()) >> 8
    }

    fn note_chunks(&mut self) {
        let max = owning_iovec::verif::live_chunks().iter().map(|c| c.id).max();
        if let Some(m) = max {
            let before = self.max_chunk_id.map(|b| b + 1).unwrap_or(0);
            if m + 1 > before {
                self.stats.chunk_creations += (m + 1 - before) as usize;
                self.max_chunk_id = Some(m);
            }
        }
    }

    /// Appends bytes to a slot through `f`, keeping the model in step and noticing merges.
    fn append(&mut self, si: usize, bytes: &[u8], f: impl FnOnce(&mut OwningIovec<'static>)) {
        let s = &mut self.slots[si];
        let before = s.io.len();
        f(&mut s.io);
        s.m.stream.extend_from_slice(bytes);
        if !bytes.is_empty() {
            s.mutated_since_split = true;
            if s.io.len() == before && before > 0 {
                self.stats.merges += 1;
                s.merged_or_backfilled_since_split = true;
            }
        }
        self.stats.bytes_appended += bytes.len();
    }

    fn apply(&mut self, op: &Op) -> Result<(), Fail> {
        self.stats.ops += 1;
        match op {
            Op::PushBorrowed { slot, off, len } => {
                let si = self.pick_slot(*slot);
                let b = pool_slice(*off, *len);
                self.append(si, b, |io| io.push_borrowed(b));
            }
            Op::PushCopy { slot, off, len } => {
                let si = self.pick_slot(*slot);
                let b = pool_slice(*off, *len);
                self.append(si, b, |io| io.push_copy(b));
            }
            Op::Push { slot, off, len } => {
                let si = self.pick_slot(*slot);
                let b = pool_slice(*off, *len);
                self.append(si, b, |io| io.push(b));
            }
            Op::Extend { slot, parts } => {
                let si = self.pick_slot(*slot);
                let slices: Vec<&'static [u8]> = parts.iter().map(|(o, l)| pool_slice(*o, *l as u32)).collect();
                let all: Vec<u8> = slices.concat();
                // `extend` takes any IntoIterator: a lazy map, a Vec, or a filter (whose size hint says little).
                match parts.len() % 3 {
                    0 => self.append(si, &all, |io| io.extend(slices.iter().map(|s| IoSlice::new(s)))),
                    1 => self.append(si, &all, |io| io.extend(slices.iter().map(|s| IoSlice::new(s)).collect::<Vec<_>>())),
                    _ => self.append(si, &all, |io| io.extend(slices.iter().map(|s| IoSlice::new(s)).filter(|_| true))),
                }
            }
            Op::FromSlices { parts, collect } => {
                if self.slots.len() < MAX_SLOTS {
                    let slices: Vec<&'static [u8]> = parts.iter().map(|(o, l)| pool_slice(*o, *l as u32)).collect();
                    let all: Vec<u8> = slices.concat();
                    let io: OwningIovec<'static> = if *collect && parts.len() % 2 == 1 {
                        // FromIterator<&IoSlice>
                        let owned: &'static [IoSlice<'static>] = Box::leak(slices.iter().map(|s| IoSlice::new(s)).collect::<Vec<_>>().into_boxed_slice());
                        owned.iter().collect()
                    } else if *collect {
                        slices.iter().map(|s| IoSlice::new(s)).collect()
                    } else {
                        OwningIovec::new_from_slices(slices.iter().map(|s| IoSlice::new(s)).collect(), None)
                    };
                    let m = Model {
                        stream: all,
                        ..Default::default()
                    };
                    self.new_slot(io, m, vec![]);
                }
            }
            Op::Register { slot, len, big } => {
                let si = self.pick_slot(*slot);
                let k = if *big > 0 { *big as usize } else { (*len as usize) % 5 };
                let pattern = vec![PLACEHOLDER; k];
                let s = &mut self.slots[si];
                let offset = s.m.stream.len();
                let backref = s.io.register_patch(&pattern);
                if backref.len() != k || backref.is_empty() != (k == 0) {
                    return Err(fail("backref:len", format!("register_patch of {k} bytes returned a backref of length {}", backref.len())));
                }
                s.m.stream.extend_from_slice(&pattern);
                if k > 0 {
                    s.m.pending.push((offset, k));
                    s.mutated_since_split = true;
                }
                s.refs.push((backref, offset, k));
                let pending = s.m.pending.len();
                self.stats.max_pending = self.stats.max_pending.max(pending);
            }
            Op::Backfill { slot, which } => {
                let si = self.pick_slot(*slot);
                let s = &mut self.slots[si];
                if !s.refs.is_empty() {
                    let i = (*which as usize * s.refs.len()) >> 8;
                    let (backref, offset, k) = s.refs.remove(i);
                    let fill: Vec<u8> = (0..k).map(|j| 0xA0 + ((offset + j) % 32) as u8).collect();
                    if k > 0 {
                        let earlier_pending = s.m.pending.iter().any(|p| p.0 < offset);
                        if earlier_pending {
                            self.stats.out_of_order_fills += 1;
                            if s.m.pending.len() >= 3 {
                                self.stats.out_of_order_with_3_pending = true;
                            }
                        }
                        if offset < s.m.observed {
                            return Err(fail(
                                "pending-was-observable",
                                format!("placeholder at offset {offset} is only backfilled now, but bytes up to offset {} were already observable", s.m.observed),
                            ));
                        }
                    }
                    s.io.backfill_or_panic(backref, &fill);
                    s.m.stream[offset..offset + k].copy_from_slice(&fill);
                    if k > 0 {
                        s.m.pending.retain(|p| *p != (offset, k));
                    }
                    if k > 0 {
                        s.mutated_since_split = true;
                        s.merged_or_backfilled_since_split = true;
                    }
                }
            }
            Op::Clear { slot } => {
                let si = self.pick_slot(*slot);
                let s = &mut self.slots[si];
                s.io.clear();
                s.m = Model::default();
                s.refs.clear();
                s.mutated_since_split = true;
                s.has_anchored = false;
                s.may_alias = false;
            }
            Op::Take { slot } => {
                let si = self.pick_slot(*slot);
                if self.slots.len() < MAX_SLOTS {
                    let s = &mut self.slots[si];
                    let taken = s.io.take();
                    let m = std::mem::take(&mut s.m);
                    let refs = std::mem::take(&mut s.refs);
                    let src_lineage = s.lineage;
                    s.mutated_since_split = false;
                    s.merged_or_backfilled_since_split = false;
                    // What is left behind must be an empty, usable iovec.
                    if s.io.total_size() != 0 || !s.io.is_empty() || !matches!(s.io.iovs(), Ok(v) if v.is_empty()) {
                        return Err(fail("take:source-not-empty", "take() left something behind in the source iovec".to_string()));
                    }
                    let (has_anchored, may_alias) = (s.has_anchored, s.may_alias);
                    s.has_anchored = false;
                    s.may_alias = false;
                    let ni = self.new_slot(taken, m, refs);
                    self.slots[ni].has_anchored = has_anchored;
                    self.slots[ni].may_alias = may_alias;
                    let nl = self.slots[ni].lineage;
                    self.splits.push((src_lineage, nl));
                    self.stats.takes += 1;
                }
            }
            Op::CloneSlot { slot } => {
                let si = self.pick_slot(*slot);
                if self.slots.len() < MAX_SLOTS && self.slots[si].m.pending.is_empty() {
                    let s = &mut self.slots[si];
                    let copy = s.io.clone();
                    let m = s.m.clone();
                    let src_lineage = s.lineage;
                    s.mutated_since_split = false;
                    s.merged_or_backfilled_since_split = false;
                    let (has_anchored, may_alias) = (s.has_anchored, s.may_alias);
                    let ni = self.new_slot(copy, m, vec![]);
                    self.slots[ni].has_anchored = has_anchored;
                    self.slots[ni].may_alias = may_alias;
                    let nl = self.slots[ni].lineage;
                    self.splits.push((src_lineage, nl));
                    self.stats.clones += 1;
                }
            }
            Op::CloneWithPending { slot, give } => {
                let si = self.pick_slot(*slot);
                if self.slots.len() < MAX_SLOTS {
                    let s = &mut self.slots[si];
                    let copy = s.io.clone();
                    let m = s.m.clone();
                    let src_lineage = s.lineage;
                    s.mutated_since_split = false;
                    s.merged_or_backfilled_since_split = false;
                    let (has_anchored, may_alias) = (s.has_anchored, s.may_alias);
                    // Hand some of the tokens over.
                    let mut kept = vec![];
                    let mut given = vec![];
                    for (k, r) in std::mem::take(&mut s.refs).into_iter().enumerate() {
                        if (*give >> (k % 8)) & 1 == 1 {
                            given.push(r);
                        } else {
                            kept.push(r);
                        }
                    }
                    s.refs = kept;
                    let had_pending = !m.pending.is_empty();
                    let ni = self.new_slot(copy, m, given);
                    self.slots[ni].has_anchored = has_anchored;
                    self.slots[ni].may_alias = may_alias;
                    let nl = self.slots[ni].lineage;
                    self.splits.push((src_lineage, nl));
                    self.stats.clones += 1;
                    if had_pending {
                        self.stats.clones_with_pending += 1;
                    }
                }
            }
            Op::DropSlot { slot } => {
                if self.slots.len() > 1 {
                    let si = self.pick_slot(*slot);
                    let before = owning_iovec::verif::retired_chunks().len();
                    let s = self.slots.remove(si);
                    drop(s);
                    let after = owning_iovec::verif::retired_chunks().len();
                    if after > before {
                        self.stats.retired_while_others_alive += after - before;
                    }
                }
            }
            Op::Flush { slot } => {
                let si = self.pick_slot(*slot);
                self.slots[si].io.arena().flush_cache();
            }
            Op::Ensure { slot, len } => {
                let si = self.pick_slot(*slot);
                self.slots[si].io.arena().ensure_capacity((*len as usize).min(2 << 20));
            }
            Op::FillChunk { slot, off, leave, via_copy } => {
                let si = self.pick_slot(*slot);
                let leave = *leave as usize;
                let arena = self.slots[si].io.arena();
                if arena.remaining() <= leave {
                    arena.ensure_capacity(leave + 1);
                }
                let take = arena.remaining().saturating_sub(leave);
                if take > 0 && take <= 2 << 20 {
                    if *via_copy {
                        let b = pool_slice(*off, take as u32);
                        self.append(si, b, |io| io.push_copy(b));
                    } else {
                        super::codec::leave_remaining(self.slots[si].io.arena(), leave);
                    }
                    self.stats.chunk_fills += 1;
                }
            }
            Op::PushEmptyAnchor { slot } => {
                let si = self.pick_slot(*slot);
                self.slots[si].io.push_anchor(Default::default());
            }
            Op::TakeArenaBack { slot } => {
                let si = self.pick_slot(*slot);
                let s = &mut self.slots[si];
                let arena = s.io.consumer().take_arena();
                // Park it: the iovec goes on with a fresh arena; the old one stays alive for a while.
                self.spare_arenas.push(arena);
                if self.spare_arenas.len() > 2 {
                    let old = self.spare_arenas.remove(0);
                    let _unused = s.io.consumer().swap_arena(old);
                }
                self.stats.taken_arenas += 1;
            }
            Op::SwapArenas { a, b } => {
                let ai = self.pick_slot(*a);
                let bi = self.pick_slot(*b);
                if ai != bi {
                    let arena_a = self.slots[ai].io.consumer().take_arena();
                    let arena_b = self.slots[bi].io.consumer().swap_arena(arena_a);
                    let fresh = self.slots[ai].io.consumer().swap_arena(arena_b);
                    drop(fresh);
                    self.stats.taken_arenas += 1;
                }
            }
            Op::NewFromArena { slot } => {
                let si = self.pick_slot(*slot);
                if self.slots.len() < MAX_SLOTS {
                    let arena = self.slots[si].io.consumer().take_arena();
                    self.new_slot(OwningIovec::new_from_arena(arena), Model::default(), vec![]);
                    self.stats.taken_arenas += 1;
                }
            }
            Op::AnchoredPush { slot, off, len, keep } => {
                let si = self.pick_slot(*slot);
                let b = pool_slice(*off, (*len).min(9000));
                let mut src = b;
                let anchored = self.slots[si]
                    .io
                    .arena()
                    .read_n(&mut src, b.len(), NonZeroUsize::new(3).unwrap())
                    .map_err(|e| fail("read_n:error", format!("read_n from a slice failed: {e}")))?;
                if anchored.slice() != b {
                    return Err(fail("read_n:content", "read_n from a slice returned other bytes".to_string()));
                }
                let keep = (*keep as usize).min(b.len());
                let (front, back) = anchored.split_at(b.len() - keep);
                if !back.slice().is_empty() && self.held.len() < MAX_HELD {
                    self.next_origin += 1;
                    self.held.push(Held {
                        expect: back.slice().to_vec(),
                        slice: back,
                        origin: self.next_origin,
                        cloned: false,
                    });
                }
                let front_bytes = front.slice().to_vec();
                if !front_bytes.is_empty() {
                    // What Encoder::encode_anchored does: slice first, then its anchor.
                    let (_io, slice, anchor) = unsafe { front.components() };
                    self.append(si, &front_bytes, |io| {
                        io.push_borrowed(slice);
                        io.push_anchor(anchor);
                    });
                    self.stats.anchored_pushes += 1;
                    self.slots[si].has_anchored = true;
                }
            }
            Op::AnchoredWindows { slot, off, len, windows } => {
                let si = self.pick_slot(*slot);
                let b = pool_slice(*off, (*len).clamp(2, 9000));
                let mut src = b;
                let anchored = self.slots[si]
                    .io
                    .arena()
                    .read_n(&mut src, b.len(), NonZeroUsize::new(3).unwrap())
                    .map_err(|e| fail("read_n:error", format!("read_n from a slice failed: {e}")))?;
                let (_io, slice, anchor) = unsafe { anchored.components() };
                let whole: &'static [u8] = unsafe { std::slice::from_raw_parts(slice.as_ptr(), slice.len()) };
                let n = whole.len();
                let mut all = vec![];
                let mut parts: Vec<&'static [u8]> = vec![];
                for (start, wlen) in windows.iter().take(4) {
                    let a = (*start as usize * n) >> 8;
                    let l = (1 + ((*wlen as usize * n) >> 8)).min(n - a);
                    if l > 0 {
                        parts.push(&whole[a..a + l]);
                        all.extend_from_slice(&b[a..a + l]);
                    }
                }
                if !parts.is_empty() {
                    self.append(si, &all, |io| {
                        for p in &parts {
                            io.push_borrowed(p);
                        }
                        io.push_anchor(anchor);
                    });
                    self.stats.anchored_pushes += 1;
                    self.slots[si].has_anchored = true;
                    self.slots[si].may_alias = true;
                }
            }
            Op::ExtendPanicking { slot, parts, after } => {
                let si = self.pick_slot(*slot);
                let slices: Vec<&'static [u8]> = parts.iter().map(|(o, l)| pool_slice(*o, *l as u32)).filter(|s| !s.is_empty()).collect();
                let after = (*after as usize).min(slices.len());
                let before_total = self.slots[si].io.total_size();
                let yielded = std::cell::Cell::new(0usize);
                let r = panics::catch(|| {
                    let it = slices.iter().map(|s| {
                        if yielded.get() == after {
                            panic!("the caller's iterator gives up");
                        }
                        yielded.set(yielded.get() + 1);
                        IoSlice::new(s)
                    });
                    self.slots[si].io.extend(it);
                });
                // What `extend` keeps of an iterator that panics is its own business (the slices
                // yielded so far, or none): the iovec must be one of those, and stay sound.
                let got = self.slots[si].io.total_size() - before_total;
                let mut kept = None;
                let mut acc = 0usize;
                for j in 0..=after {
                    if acc == got {
                        kept = Some(j);
                        break;
                    }
                    if j < after {
                        acc += slices[j].len();
                    }
                }
                let Some(kept) = kept else {
                    return Err(fail("extend:after-panic", format!("after the caller's iterator panicked (having yielded {after} slices) the iovec grew by {got} bytes, which is no prefix of what was yielded")));
                };
                if r.is_ok() && after < slices.len() {
                    return Err(fail("extend:after-panic", "the caller's panic vanished inside extend".to_string()));
                }
                let all: Vec<u8> = slices[..kept].concat();
                self.append(si, &all, |_io| {});
            }
            Op::Hold { slot, off, len } => {
                let si = self.pick_slot(*slot);
                if self.held.len() < MAX_HELD {
                    let b = pool_slice(*off, if *len >= 500_000 { *len } else { (*len).min(9000) });
                    let mut src = b;
                    let anchored = self.slots[si]
                        .io
                        .arena()
                        .read_n(&mut src, b.len(), NonZeroUsize::new(3).unwrap())
                        .map_err(|e| fail("read_n:error", format!("read_n from a slice failed: {e}")))?;
                    self.next_origin += 1;
                    self.held.push(Held {
                        expect: b.to_vec(),
                        slice: anchored,
                        origin: self.next_origin,
                        cloned: false,
                    });
                    self.stats.held_ops += 1;
                }
            }
            Op::HeldSplit { idx, mid } => {
                if !self.held.is_empty() && self.held.len() < MAX_HELD {
                    let i = (*idx as usize * self.held.len()) >> 8;
                    let h = self.held.remove(i);
                    let mid = *mid as usize;
                    let cut = mid.min(h.expect.len());
                    let (l, r) = h.slice.split_at(mid);
                    self.held.push(Held {
                        slice: l,
                        expect: h.expect[..cut].to_vec(),
                        origin: h.origin,
                        cloned: h.cloned,
                    });
                    self.held.push(Held {
                        slice: r,
                        expect: h.expect[cut..].to_vec(),
                        origin: h.origin,
                        cloned: h.cloned,
                    });
                    self.stats.held_ops += 1;
                }
            }
            Op::HeldSkip { idx, k } => {
                if !self.held.is_empty() {
                    let i = (*idx as usize * self.held.len()) >> 8;
                    let h = &mut self.held[i];
                    let want = (*k as usize).min(h.expect.len());
                    let got = h.slice.skip_prefix(*k as usize);
                    if got != want {
                        return Err(fail("anchored:skip_prefix", format!("skip_prefix({k}) returned {got} on a slice of {} bytes", h.expect.len())));
                    }
                    h.expect.drain(..want);
                    self.stats.held_ops += 1;
                }
            }
            Op::HeldDropSuffix { idx, k } => {
                if !self.held.is_empty() {
                    let i = (*idx as usize * self.held.len()) >> 8;
                    let h = &mut self.held[i];
                    let want = (*k as usize).min(h.expect.len());
                    let got = h.slice.drop_suffix(*k as usize);
                    if got != want {
                        return Err(fail("anchored:drop_suffix", format!("drop_suffix({k}) returned {got} on a slice of {} bytes", h.expect.len())));
                    }
                    let keep = h.expect.len() - want;
                    h.expect.truncate(keep);
                    self.stats.held_ops += 1;
                }
            }
            Op::HeldClone { idx } => {
                if !self.held.is_empty() && self.held.len() < MAX_HELD {
                    let i = (*idx as usize * self.held.len()) >> 8;
                    self.held[i].cloned = true;
                    let copy = Held {
                        slice: self.held[i].slice.clone(),
                        expect: self.held[i].expect.clone(),
                        origin: self.held[i].origin,
                        cloned: true,
                    };
                    self.held.push(copy);
                    self.stats.held_ops += 1;
                }
            }
            Op::HeldDrop { idx } => {
                if !self.held.is_empty() {
                    let i = (*idx as usize * self.held.len()) >> 8;
                    let before = owning_iovec::verif::retired_chunks().len();
                    let h = self.held.remove(i);
                    drop(h);
                    let after = owning_iovec::verif::retired_chunks().len();
                    if after > before && (!self.slots.is_empty() || !self.held.is_empty()) {
                        self.stats.retired_while_others_alive += after - before;
                    }
                    self.stats.held_ops += 1;
                }
            }
            Op::HeldTake { idx } => {
                if !self.held.is_empty() {
                    let i = (*idx as usize * self.held.len()) >> 8;
                    let taken = self.held[i].slice.take();
                    if !self.held[i].slice.slice().is_empty() {
                        return Err(fail("anchored:take", "AnchoredSlice::take left a non-empty slice behind".to_string()));
                    }
                    self.held[i].slice = taken;
                    self.stats.held_ops += 1;
                }
            }
            Op::HeldPush { idx, slot } => {
                if !self.held.is_empty() {
                    let i = (*idx as usize * self.held.len()) >> 8;
                    let si = self.pick_slot(*slot);
                    let h = self.held.remove(i);
                    if !h.expect.is_empty() {
                        let (_io, slice, anchor) = unsafe { h.slice.components() };
                        self.append(si, &h.expect, |io| {
                            io.push_borrowed(slice);
                            io.push_anchor(anchor);
                        });
                        self.stats.anchored_pushes += 1;
                        self.slots[si].has_anchored = true;
                        if h.cloned {
                            self.slots[si].may_alias = true;
                        }
                    }
                    self.stats.held_ops += 1;
                }
            }
            Op::Consume { slot, k } => {
                let si = self.pick_slot(*slot);
                let s = &mut self.slots[si];
                let prefix: Vec<usize> = s.io.stable_prefix().iter().map(|x| x.len()).collect();
                // (255 stands for usize::MAX: "consume everything")
                let k = &(if *k == 255 { usize::MAX } else { *k as usize });
                let want = (*k).min(prefix.len());
                let bytes: usize = prefix[..want].iter().sum();
                let got = if k % 2 == 1 && s.m.pending.is_empty() {
                    // Through the StableIovec wrapper (DerefMut to ConsumingIovec).
                    match s.io.stable_consumer() {
                        Ok(mut stable) => stable.consume(*k as usize),
                        Err(_) => return Err(fail("stable_consumer:arm", "stable_consumer() failed with no placeholder pending".to_string())),
                    }
                } else {
                    s.io.consumer().consume(*k as usize)
                };
                if got != want {
                    return Err(fail("consume:count", format!("consume({k}) returned {got} with {} consumable slices", prefix.len())));
                }
                s.m.observed = s.m.observed.max(s.m.consumed + prefix.iter().sum::<usize>());
                s.m.consumed += bytes;
                if bytes > 0 {
                    s.mutated_since_split = true;
                    if !s.m.pending.is_empty() {
                        self.stats.consume_while_pending += 1;
                    }
                }
            }
            Op::Advance { .. } | Op::AdvanceFrac { .. } => {
                let (slot, n_abs, frac) = match op {
                    Op::Advance { slot, n } => (*slot, Some(*n as usize), None),
                    Op::AdvanceFrac { slot, f } => (*slot, None, Some(*f as usize)),
                    _ => unreachable!(),
                };
                let si = self.pick_slot(slot);
                let s = &mut self.slots[si];
                let prefix: Vec<usize> = s.io.stable_prefix().iter().map(|x| x.len()).collect();
                let avail: usize = prefix.iter().sum();
                // (the top of the u32 range stands for the top of the usize range)
                let n = n_abs.map(|n| if n >= u32::MAX as usize - 3 { usize::MAX - (u32::MAX as usize - n) } else { n }).unwrap_or_else(|| avail * frac.unwrap() / 255);
                let want = n.min(avail);
                // Through `consumer()`, or through the conversion traits (`From<&mut OwningIovec>`,
                // then `TryFrom<ConsumingIovec>` for the stable wrapper when nothing is pending).
                let got = match n % 3 {
                    0 => s.io.consumer().advance_slices(n),
                    1 => owning_iovec::ConsumingIovec::from(&mut s.io).advance_slices(n),
                    _ => {
                        let consumer = owning_iovec::ConsumingIovec::from(&mut s.io);
                        match owning_iovec::StableIovec::try_from(consumer) {
                            Ok(mut stable) if s.m.pending.is_empty() => stable.advance_slices(n),
                            Ok(_) => return Err(fail("stable_consumer:arm", "StableIovec::try_from succeeded with a placeholder pending".to_string())),
                            Err(_) if !s.m.pending.is_empty() => s.io.consumer().advance_slices(n),
                            Err(_) => return Err(fail("stable_consumer:arm", "StableIovec::try_from failed with no placeholder pending".to_string())),
                        }
                    }
                };
                if got != want {
                    return Err(fail("advance:count", format!("advance_slices({n}) returned {got} with {avail} consumable bytes")));
                }
                s.m.observed = s.m.observed.max(s.m.consumed + avail);
                s.m.consumed += want;
                if want > 0 {
                    s.mutated_since_split = true;
                    // Did it stop inside a slice?
                    let mut acc = 0;
                    for l in &prefix {
                        if want > acc && want < acc + l {
                            self.stats.partial_byte_consumptions += 1;
                            if s.has_anchored {
                                self.stats.anchored_partially_consumed = true;
                            }
                        }
                        acc += l;
                    }
                    if !s.m.pending.is_empty() {
                        self.stats.consume_while_pending += 1;
                    }
                }
            }
            Op::PopFront { slot } => {
                let si = self.pick_slot(*slot);
                let s = &mut self.slots[si];
                let first = s.io.stable_prefix().first().map(|x| x.len());
                if let Some(len) = first {
                    let avail: usize = s.io.stable_prefix().iter().map(|x| x.len()).sum();
                    s.io.consumer().pop_front();
                    s.m.observed = s.m.observed.max(s.m.consumed + avail);
                    s.m.consumed += len;
                    s.mutated_since_split = true;
                }
            }
            Op::ReadVia { slot, how, n } => {
                use std::io::Read;
                let si = self.pick_slot(*slot);
                let s = &mut self.slots[si];
                let prefix: Vec<usize> = s.io.stable_prefix().iter().map(|x| x.len()).collect();
                let avail: usize = prefix.iter().sum();
                let n = *n as usize;
                let ioerr = |what: &str, e: std::io::Error| fail("read_via:error", format!("{what} failed: {e}"));
                // (what was called, the count it reported, the bytes it handed over, the count it had to report)
                let (what, reported, bytes, want): (&str, usize, Vec<u8>, usize) = match how % 5 {
                    0 => {
                        let mut dst = vec![0xa5u8; n % 4];
                        let got = s.io.consumer().read_to_end(&mut dst).map_err(|e| ioerr("read_to_end", e))?;
                        if dst.len() < n % 4 || dst[..n % 4].iter().any(|b| *b != 0xa5) {
                            return Err(fail("read_via:clobbers", "read_to_end changed what the vector already held".to_string()));
                        }
                        ("read_to_end", got, dst[n % 4..].to_vec(), avail)
                    }
                    1 => {
                        let mut dst = Vec::new();
                        let got = std::io::copy(&mut s.io.consumer(), &mut dst).map_err(|e| ioerr("io::copy", e))?;
                        ("io::copy", got as usize, dst, avail)
                    }
                    2 => {
                        let k = n.min(avail);
                        let mut dst = vec![0u8; k];
                        s.io.consumer().read_exact(&mut dst).map_err(|e| ioerr("read_exact (of no more than is consumable)", e))?;
                        ("read_exact", k, dst, k)
                    }
                    3 => {
                        let (mut a, mut b) = (vec![0u8; n % 7], vec![0u8; n / 7]);
                        let total = a.len() + b.len();
                        let got = {
                            let mut bufs = [std::io::IoSliceMut::new(&mut a), std::io::IoSliceMut::new(&mut b)];
                            s.io.consumer().read_vectored(&mut bufs).map_err(|e| ioerr("read_vectored", e))?
                        };
                        if got > total.min(avail) || (got == 0 && total.min(avail) > 0) {
                            return Err(fail("read_via:count", format!("read_vectored into {total} bytes returned {got} with {avail} consumable bytes")));
                        }
                        a.extend_from_slice(&b);
                        a.truncate(got);
                        ("read_vectored", got, a, got)
                    }
                    _ => {
                        let mut dst = Vec::new();
                        let mut consumer = s.io.consumer();
                        let got = (&mut consumer).take(n as u64).read_to_end(&mut dst).map_err(|e| ioerr("take(n).read_to_end", e))?;
                        ("take(n).read_to_end", got, dst, n.min(avail))
                    }
                };
                if reported != want || bytes.len() != want {
                    return Err(fail(
                        "read_via:count",
                        format!("{what} (n = {n}) reported {reported} bytes and handed over {}, with {avail} consumable bytes it had to be {want}", bytes.len()),
                    ));
                }
                if bytes[..] != s.m.stream[s.m.consumed..s.m.consumed + want] {
                    return Err(fail(
                        "read_via:content",
                        format!("{what} handed over {}, the pipe holds {}", show(&bytes), show(&s.m.stream[s.m.consumed..s.m.consumed + want])),
                    ));
                }
                s.m.observed = s.m.observed.max(s.m.consumed + avail);
                s.m.consumed += want;
                if want > 0 {
                    s.mutated_since_split = true;
                    if !s.m.pending.is_empty() {
                        self.stats.consume_while_pending += 1;
                    }
                }
            }
            Op::Read { slot, n } => {
                let si = self.pick_slot(*slot);
                let s = &mut self.slots[si];
                let prefix: Vec<usize> = s.io.stable_prefix().iter().map(|x| x.len()).collect();
                let avail: usize = prefix.iter().sum();
                let mut buf = vec![0u8; *n as usize];
                let got = s.io.consumer().read(&mut buf).map_err(|e| fail("read:error", format!("Read::read failed: {e}")))?;
                let want = (*n as usize).min(avail);
                if got != want {
                    return Err(fail("read:count", format!("Read::read into {n} bytes returned {got} with {avail} consumable bytes")));
                }
                if buf[..got] != s.m.stream[s.m.consumed..s.m.consumed + got] {
                    return Err(fail(
                        "read:content",
                        format!("Read::read returned {}, the pipe holds {}", show(&buf[..got]), show(&s.m.stream[s.m.consumed..s.m.consumed + got])),
                    ));
                }
                s.m.observed = s.m.observed.max(s.m.consumed + avail);
                s.m.consumed += got;
                if got > 0 {
                    s.mutated_since_split = true;
                    let mut acc = 0;
                    for l in &prefix {
                        if got > acc && got < acc + l {
                            self.stats.partial_byte_consumptions += 1;
                            if s.has_anchored {
                                self.stats.anchored_partially_consumed = true;
                            }
                        }
                        acc += l;
                    }
                    if !s.m.pending.is_empty() {
                        self.stats.consume_while_pending += 1;
                    }
                }
            }
        }
        self.note_chunks();
        Ok(())
    }

    /// Compares one slot with its model (C03 / C04 / C20 oracles).
    fn check_pipe(&mut self, si: usize) -> Result<(), Fail> {
        let s = &mut self.slots[si];
        let m = &mut s.m;
        let io = &s.io;
        let remaining = m.stream.len() - m.consumed;
        if io.total_size() != remaining {
            return Err(fail("total_size", format!("slot {si}: total_size() is {}, appended - consumed is {remaining}", io.total_size())));
        }
        let first_pending = m.pending.iter().map(|p| p.0).min();
        let prefix = slices_of(io);
        if prefix.iter().any(|x| x.is_empty()) {
            return Err(fail("empty-slice", format!("slot {si}: an exposed slice is empty")));
        }
        let vis: Vec<u8> = prefix.concat();
        let limit = first_pending.unwrap_or(m.stream.len());
        if m.consumed + vis.len() > limit {
            return Err(fail(
                "pending-observable",
                format!(
                    "slot {si}: bytes up to stream offset {} are consumable but the earliest pending placeholder is at offset {limit}",
                    m.consumed + vis.len()
                ),
            ));
        }
        if vis[..] != m.stream[m.consumed..m.consumed + vis.len()] {
            let at = vis.iter().zip(m.stream[m.consumed..].iter()).position(|(a, b)| a != b).unwrap_or(0);
            return Err(fail(
                "content",
                format!(
                    "slot {si}: consumable bytes differ from the bytes appended at stream offset {}: got {}, appended {}",
                    m.consumed + at,
                    show(&vis[at..(at + 16).min(vis.len())]),
                    show(&m.stream[m.consumed + at..(m.consumed + at + 16).min(m.stream.len())])
                ),
            ));
        }
        if first_pending.is_none() && m.consumed + vis.len() != m.stream.len() {
            return Err(fail(
                "not-all-consumable",
                format!("slot {si}: no placeholder is pending but only {} of {remaining} buffered bytes are consumable", vis.len()),
            ));
        }
        m.observed = m.observed.max(m.consumed + vis.len());
        let pending = first_pending.is_some();
        if io.has_pending_backrefs() != pending {
            return Err(fail("has_pending_backrefs", format!("slot {si}: has_pending_backrefs() is {}, model says {pending}", io.has_pending_backrefs())));
        }
        // Every other read-side view agrees with the stable prefix.
        match io.iovs() {
            Ok(v) if !pending => same_slices(v, &prefix, si, "iovs() Ok")?,
            Err(v) if pending => same_slices(v, &prefix, si, "iovs() Err")?,
            other => return Err(fail("iovs:arm", format!("slot {si}: iovs() is_ok = {} with pending = {pending}", other.is_ok()))),
        }
        // With megabytes buffered the copying views are only exercised now and then.
        let copy_views = remaining <= 300_000 || self.stats.ops % 8 == 0;
        if copy_views {
            match io.flatten() {
                Ok(v) if !pending && v == vis => {}
                Err(v) if pending && v == vis => {}
                other => return Err(fail("flatten", format!("slot {si}: flatten() is_ok = {} (pending = {pending}) or its bytes differ from the stable prefix", other.is_ok()))),
            }
            match io.flatten_into(vec![0x42]) {
                Ok(v) | Err(v) if v[0] == 0x42 && v[1..] == vis[..] => {}
                _ => return Err(fail("flatten_into", format!("slot {si}: flatten_into does not append the stable prefix after the existing contents"))),
            }
        }
        let front = io.front().map(|x| x.to_vec());
        if front != prefix.first().map(|x| x.to_vec()) {
            return Err(fail("front", format!("slot {si}: front() differs from the first stable slice")));
        }
        let iterated: Vec<&[u8]> = io.into_iter().map(|x| -> &[u8] { x }).collect();
        if iterated != prefix {
            return Err(fail("iteration", format!("slot {si}: iteration differs from the stable prefix")));
        }
        if io.is_empty() != (remaining == 0) || (io.len() == 0) != (remaining == 0) || io.len() < prefix.len() {
            return Err(fail("len", format!("slot {si}: len() {} / is_empty() {} with {remaining} buffered bytes and {} stable slices", io.len(), io.is_empty(), prefix.len())));
        }
        let io = &mut s.io;
        match io.stable_consumer() {
            Ok(sc) if !pending => {
                if (copy_views && sc.flatten() != vis) || sc.iovs().len() != prefix_len(&vis, sc.iovs()) {
                    return Err(fail("stable_consumer", format!("slot {si}: StableIovec views differ from the stable prefix")));
                }
            }
            Err(_) if pending => {}
            other => return Err(fail("stable_consumer:arm", format!("slot {si}: stable_consumer() is_ok = {} with pending = {pending}", other.is_ok()))),
        }
        Ok(())
    }

    /// Checks every exposed slice against the registry of live chunks (C05).
    fn check_mem(&self) -> Result<(), Fail> {
        let live = owning_iovec::verif::live_chunks();
        let retired = owning_iovec::verif::retired_chunks();
        let pool = pool().as_ptr_range();
        let (pool_start, pool_end) = (pool.start as usize, pool.end as usize);
        let classify = |start: usize, len: usize, what: &dyn Fn() -> String| -> Result<bool, Fail> {
            let end = start + len;
            if start >= pool_start && end <= pool_end {
                return Ok(false);
            }
            for r in &retired {
                if start < r.start + r.len && r.start < end {
                    return Err(fail("memory:released-chunk", format!("{}: {len} bytes at {start:#x} lie in arena chunk #{} which has been released", what(), r.id)));
                }
            }
            if live.iter().any(|c| start >= c.start && end <= c.start + c.len) {
                return Ok(true);
            }
            Err(fail("memory:not-live", format!("{}: {len} bytes at {start:#x} lie neither in a caller buffer nor inside one live arena chunk", what())))
        };
        for (si, s) in self.slots.iter().enumerate() {
            let mut owned: Vec<(usize, usize)> = vec![];
            for (k, x) in s.io.stable_prefix().iter().enumerate() {
                let start = x.as_ptr() as usize;
                if classify(start, x.len(), &|| format!("slot {si} slice {k}"))? {
                    owned.push((start, start + x.len()));
                }
            }
            owned.sort_unstable();
            for w in owned.windows(2) {
                if w[1].0 < w[0].1 && !s.may_alias {
                    return Err(fail("memory:overlap", format!("slot {si}: two owned slices overlap ({:#x}..{:#x} and {:#x}..{:#x})", w[0].0, w[0].1, w[1].0, w[1].1)));
                }
            }
        }
        let mut by_origin: Vec<(usize, usize, u32)> = vec![];
        for (hi, h) in self.held.iter().enumerate() {
            let sl = h.slice.slice();
            if sl != &h.expect[..] {
                return Err(fail("memory:held-content", format!("held anchored slice {hi}: contents changed: {} expected {}", show(sl), show(&h.expect))));
            }
            if !sl.is_empty() {
                let start = sl.as_ptr() as usize;
                classify(start, sl.len(), &|| format!("held anchored slice {hi}"))?;
                by_origin.push((start, start + sl.len(), h.origin));
            }
        }
        by_origin.sort_unstable();
        for w in by_origin.windows(2) {
            if w[1].0 < w[0].1 && w[0].2 != w[1].2 {
                return Err(fail("memory:overlap", "slices returned by two different read_n calls overlap".to_string()));
            }
        }
        Ok(())
    }

    fn check_all(&mut self) -> Result<(), Fail> {
        if self.profile.check_pipe {
            for si in 0..self.slots.len() {
                self.check_pipe(si)?;
            }
        }
        if self.profile.check_mem {
            self.check_mem()?;
        }
        // Classification for C20: both sides of some split mutated, one of them by a merge / backfill.
        for (a, b) in &self.splits {
            let sa = self.slots.iter().find(|s| s.lineage == *a);
            let sb = self.slots.iter().find(|s| s.lineage == *b);
            if let (Some(sa), Some(sb)) = (sa, sb) {
                if sa.mutated_since_split && sb.mutated_since_split && (sa.merged_or_backfilled_since_split || sb.merged_or_backfilled_since_split) {
                    self.stats.split_both_sides_mutated = true;
                }
            }
        }
        Ok(())
    }
}

fn prefix_len(_vis: &[u8], v: &[IoSlice<'_>]) -> usize {
    v.len()
}

fn same_slices(got: &[IoSlice<'_>], want: &[&[u8]], si: usize, what: &str) -> Result<(), Fail> {
    if got.len() != want.len() || got.iter().zip(want.iter()).any(|(a, b)| a.as_ptr() != b.as_ptr() || a.len() != b.len()) {
        return Err(fail("iovs:slices", format!("slot {si}: {what} does not hold the stable prefix")));
    }
    Ok(())
}

/// Runs a history.  Process-global state (chunk registry, counters) is
/// used: call from a single-threaded worker only.
/// Runs `f` while another object of the process holds `mib` MiB of (untouched) arena memory:
/// what the rest of the process keeps alive must not matter to the objects under test.
pub fn with_ballast<T>(mib: usize, f: impl FnOnce() -> T) -> T {
    let mut ballast = ByteArena::new();
    ballast.ensure_capacity(mib << 20);
    let r = f();
    drop(ballast);
    r
}

/// The ballast the `*-with-ballast` groups run under (and their replays): just above 64 MiB... and then some.
pub const BALLAST_MIB: usize = 96;

/// `check(case)` under the groups' ballast (used by replays; the groups themselves hold one
/// ballast for all their cases, since reserving it costs milliseconds).
pub fn check_with_ballast<C>(case: &C, check: impl FnOnce(&C) -> crate::engine::CaseResult) -> crate::engine::CaseResult {
    with_ballast(BALLAST_MIB, || check(case))
}

/// Holds `mib` MiB of arena memory until dropped.
pub struct Ballast(#[allow(dead_code)] ByteArena);

impl Ballast {
    pub fn new(mib: usize) -> Ballast {
        let mut arena = ByteArena::new();
        arena.ensure_capacity(mib << 20);
        Ballast(arena)
    }
}

thread_local! {
    static HANDOFF: std::cell::Cell<bool> = const { std::cell::Cell::new(false) };
}

/// Runs `f` with thread hand-off on: [`run_history`] then executes every third operation
/// (and every other teardown step) on a fresh thread, strictly one thread at a time. The
/// objects are `Send`: where they are used and dropped must not matter.
pub fn with_thread_handoff<T>(f: impl FnOnce() -> T) -> T {
    HANDOFF.with(|h| h.set(true));
    let r = f();
    HANDOFF.with(|h| h.set(false));
    r
}

fn on_thread<T: Send>(elsewhere: bool, f: impl FnOnce() -> T + Send) -> T {
    if elsewhere {
        std::thread::scope(|s| s.spawn(f).join().expect("the closure catches its own panics"))
    } else {
        f()
    }
}

pub fn run_history(history: &History, profile: Profile) -> Result<Stats, Fail> {
    let handoff = HANDOFF.with(|h| h.get());
    let _ = pool();
    let chunks_before = ByteArena::num_live_chunks();
    let bytes_before = ByteArena::num_live_bytes();
    owning_iovec::verif::release_quarantine();
    owning_iovec::verif::set_quarantine(profile.check_mem);

    let result = (|| -> Result<Stats, Fail> {
        let mut w = World::new(profile);
        for (i, op) in history.ops.iter().enumerate() {
            let r = on_thread(handoff && i % 3 == 1, || panics::catch(|| w.apply(op).and_then(|()| w.check_all())));
            match r {
                Err(p) => {
                    // The world may be inconsistent; leak it rather than run destructors on it.
                    let sig = format!("panic:{}:{}", op_name(op), p.signature());
                    std::mem::forget(w);
                    return Err(Fail::new(sig, format!("op #{i} {op:?} panicked: {}", p.describe())));
                }
                Ok(Err(f)) => return Err(Fail::new(format!("{}:{}", f.sig, op_name(op)), format!("after op #{i} {op:?}: {}", f.msg))),
                Ok(Ok(())) => {}
            }
        }
        // Tear down in the generated order, checking the survivors as we go.
        let mut order = history.drop_order.iter();
        loop {
            let n = w.slots.len() + w.held.len() + w.spare_arenas.len();
            if n == 0 {
                break;
            }
            let pick = order.next().copied().unwrap_or(0) as usize % n;
            let before = owning_iovec::verif::retired_chunks().len();
            on_thread(handoff && n % 2 == 0, || {
                if pick < w.slots.len() {
                    let s = w.slots.remove(pick);
                    drop(s);
                } else if pick < w.slots.len() + w.held.len() {
                    let h = w.held.remove(pick - w.slots.len());
                    drop(h);
                } else {
                    let a = w.spare_arenas.remove(pick - w.slots.len() - w.held.len());
                    drop(a);
                }
            });
            let after = owning_iovec::verif::retired_chunks().len();
            if after > before && n > 1 {
                w.stats.retired_while_others_alive += after - before;
            }
            let r = panics::catch(|| w.check_all());
            match r {
                Err(p) => {
                    let sig = format!("panic:teardown:{}", p.signature());
                    std::mem::forget(w);
                    return Err(Fail::new(sig, format!("teardown panicked: {}", p.describe())));
                }
                Ok(Err(f)) => return Err(Fail::new(format!("{}:after-drop", f.sig), format!("after dropping another object: {}", f.msg))),
                Ok(Ok(())) => {}
            }
        }
        Ok(w.stats.clone())
    })();

    owning_iovec::verif::set_quarantine(false);
    owning_iovec::verif::release_quarantine();
    let stats = result?;
    if profile.check_leak {
        let chunks_after = ByteArena::num_live_chunks();
        let bytes_after = ByteArena::num_live_bytes();
        if chunks_after != chunks_before || bytes_after != bytes_before {
            return Err(Fail::new(
                "leak",
                format!("after dropping every object the live-chunk counters went from ({chunks_before} chunks, {bytes_before} bytes) to ({chunks_after} chunks, {bytes_after} bytes)"),
            ));
        }
    }
    Ok(stats)
}

fn op_name(op: &Op) -> &'static str {
    match op {
        Op::PushBorrowed { .. } => "push_borrowed",
        Op::PushCopy { .. } => "push_copy",
        Op::Push { .. } => "push",
        Op::Extend { .. } => "extend",
        Op::FromSlices { .. } => "new_from_slices",
        Op::Register { .. } => "register_patch",
        Op::Backfill { .. } => "backfill",
        Op::Clear { .. } => "clear",
        Op::Take { .. } => "take",
        Op::CloneSlot { .. } => "clone",
        Op::CloneWithPending { .. } => "clone",
        Op::DropSlot { .. } => "drop",
        Op::Flush { .. } => "flush_cache",
        Op::Ensure { .. } => "ensure_capacity",
        Op::FillChunk { .. } => "fill_chunk",
        Op::PushEmptyAnchor { .. } => "push_anchor(empty)",
        Op::TakeArenaBack { .. } => "take_arena",
        Op::SwapArenas { .. } => "swap_arena",
        Op::NewFromArena { .. } => "new_from_arena",
        Op::AnchoredPush { .. } => "anchored_push",
        Op::AnchoredWindows { .. } => "anchored_windows",
        Op::ExtendPanicking { .. } => "extend(panicking)",
        Op::Hold { .. } => "read_n",
        Op::HeldSplit { .. } => "split_at",
        Op::HeldSkip { .. } => "skip_prefix",
        Op::HeldDropSuffix { .. } => "drop_suffix",
        Op::HeldClone { .. } => "anchored_clone",
        Op::HeldDrop { .. } => "anchored_drop",
        Op::HeldTake { .. } => "anchored_take",
        Op::HeldPush { .. } => "anchored_push_held",
        Op::Consume { .. } => "consume",
        Op::Advance { .. } | Op::AdvanceFrac { .. } => "advance_slices",
        Op::PopFront { .. } => "pop_front",
        Op::Read { .. } => "read",
        Op::ReadVia { .. } => "read_via",
    }
}

/// Address classification against the live-chunk registry, for checks outside
/// the state machine.  `lent` are caller-owned buffers whose borrow is in force.
/// Returns whether the range is arena-owned.  `what` describes the slice; it is
/// only rendered when the check fails (this is a hot path).
pub fn classify_range(start: usize, len: usize, lent: &[(usize, usize)], what: &dyn Fn() -> String) -> Result<bool, Fail> {
    Registry::snapshot().classify(start, len, lent, what)
}

/// One snapshot of the chunk registry, for checking many ranges.
pub struct Registry {
    live: Vec<owning_iovec::verif::ChunkInfo>,
    retired: Vec<owning_iovec::verif::ChunkInfo>,
}

impl Registry {
    pub fn snapshot() -> Self {
        Registry {
            live: owning_iovec::verif::live_chunks(),
            retired: owning_iovec::verif::retired_chunks(),
        }
    }

    pub fn classify(&self, start: usize, len: usize, lent: &[(usize, usize)], what: &dyn Fn() -> String) -> Result<bool, Fail> {
        if len == 0 {
            return Ok(false);
        }
        let end = start + len;
        if lent.iter().any(|(s, e)| start >= *s && end <= *e) {
            return Ok(false);
        }
        for r in &self.retired {
            if start < r.start + r.len && r.start < end {
                return Err(fail("memory:released-chunk", format!("{}: {len} bytes at {start:#x} lie in arena chunk #{} which has been released", what(), r.id)));
            }
        }
        if self.live.iter().any(|c| start >= c.start && end <= c.start + c.len) {
            return Ok(true);
        }
        Err(fail("memory:not-live", format!("{}: {len} bytes at {start:#x} lie neither in a caller buffer nor inside one live arena chunk", what())))
    }
}

/// Runs `f` with quarantine on, releasing it afterwards.
pub fn with_quarantine<T>(f: impl FnOnce() -> T) -> T {
    owning_iovec::verif::release_quarantine();
    owning_iovec::verif::set_quarantine(true);
    let r = f();
    owning_iovec::verif::set_quarantine(false);
    owning_iovec::verif::release_quarantine();
    r
}

// ---- generators -----------------------------------------------------------

fn size() -> impl Strategy<Value = u32> {
    prop_oneof![
        4 => 1u32..9,
        3 => 60u32..69,
        3 => 250u32..262,
        2 => 1u32..300,
        2 => 4000u32..4200,
        1 => 8100u32..8300,
        1 => Just(0u32),
        1 => 69_000u32..71_000,
    ]
}

/// Sizes at and beyond the arena's largest regular chunk (1 MiB): rare, they make every later check expensive.
fn huge_size() -> impl Strategy<Value = u32> {
    prop_oneof![Just(1u32 << 20), Just((1 << 20) + 1), Just((1 << 20) - 1), (1u32 << 20) - 4096..(1u32 << 20) + 200_000, 500_000u32..600_000]
}

fn small_size() -> impl Strategy<Value = u32> {
    prop_oneof![5 => 1u32..9, 3 => 60u32..69, 2 => 250u32..262, 1 => Just(0u32)]
}

fn parts() -> impl Strategy<Value = Vec<(u32, u16)>> {
    prop_oneof![
        6 => proptest::collection::vec((any::<u32>(), prop_oneof![2 => Just(0u16), 5 => 1u16..100, 1 => 250u16..300]), 0..5),
        // Slices that touch in memory: a ring buffer handed over as [tail, head] (the second ends where
        // the first begins), the same in forward order, and three in a row either way round.
        // (offsets below 1 MiB are used as they are by `pool_slice`)
        2 => (0u32..1_000_000, 1u16..300, 1u16..300).prop_map(|(off, a, b)| vec![(off + b as u32, a), (off, b)]),
        1 => (0u32..1_000_000, 1u16..300, 1u16..300).prop_map(|(off, a, b)| vec![(off, a), (off + a as u32, b)]),
        1 => (0u32..1_000_000, 1u16..100, 1u16..100, 1u16..100, any::<bool>()).prop_map(|(off, a, b, c, rev)| {
            let v = vec![(off, a), (off + a as u32, b), (off + a as u32 + b as u32, c)];
            if rev {
                v.into_iter().rev().collect()
            } else {
                v
            }
        }),
    ]
}

/// Operation mixes.
#[derive(Clone, Copy, Debug, PartialEq, Eq)]
pub enum Mix {
    /// Everything (C03, C10).
    General,
    /// Many placeholders in flight, fills mostly out of order, consumption right up to the blocked slice (C04).
    Backpatch,
    /// Clones, drops, held anchored slices (C05).
    Memory,
    /// Prefix, clone / take, then interleaved suffixes (C20).
    Split,
}

pub fn op(mix: Mix) -> BoxedStrategy<Op> {
    let slot = any::<u8>;
    let push = prop_oneof![
        3 => (slot(), any::<u32>(), size()).prop_map(|(slot, off, len)| Op::PushBorrowed { slot, off, len }),
        4 => (slot(), any::<u32>(), size()).prop_map(|(slot, off, len)| Op::PushCopy { slot, off, len }),
        3 => (slot(), any::<u32>(), size()).prop_map(|(slot, off, len)| Op::Push { slot, off, len }),
        1 => (slot(), parts()).prop_map(|(slot, parts)| Op::Extend { slot, parts }),
        2 => (slot(), any::<u32>(), prop_oneof![small_size(), 1000u32..5000], prop_oneof![3 => Just(0u16), 1 => 1u16..40]).prop_map(|(slot, off, len, keep)| Op::AnchoredPush { slot, off, len, keep }),
        2 => (slot(), any::<u32>(), prop_oneof![16u32..40, 128u32..600, 1000u32..5000], prop_oneof![
                // two halves, trailer first; the same window twice; overlapping windows; anything
                2 => Just(vec![(128u8, 127u8), (0u8, 127u8)]),
                1 => Just(vec![(0u8, 255u8), (0u8, 255u8)]),
                2 => (0u8..200, 40u8..255).prop_map(|(a, l)| vec![(a, l), (a / 2, l)]),
                3 => proptest::collection::vec((any::<u8>(), any::<u8>()), 1..4),
            ]).prop_map(|(slot, off, len, windows)| Op::AnchoredWindows { slot, off, len, windows }),
        1 => (slot(), parts(), 0u8..4).prop_map(|(slot, parts, after)| Op::ExtendPanicking { slot, parts, after }),
    ];
    let small_push = prop_oneof![
        2 => (slot(), any::<u32>(), small_size()).prop_map(|(slot, off, len)| Op::PushBorrowed { slot, off, len }),
        4 => (slot(), any::<u32>(), small_size()).prop_map(|(slot, off, len)| Op::PushCopy { slot, off, len }),
        3 => (slot(), any::<u32>(), small_size()).prop_map(|(slot, off, len)| Op::Push { slot, off, len }),
    ];
    let patch = prop_oneof![
        1 => (slot(), 0u8..5, prop_oneof![12 => Just(0u16), 2 => 5u16..64, 2 => 64u16..300, 1 => 300u16..4200]).prop_map(|(slot, len, big)| Op::Register { slot, len, big }),
        1 => (slot(), any::<u8>()).prop_map(|(slot, which)| Op::Backfill { slot, which }),
    ];
    let consume = prop_oneof![
        2 => (slot(), prop_oneof![9 => 0u8..4, 1 => Just(255u8)]).prop_map(|(slot, k)| Op::Consume { slot, k }),
        2 => (slot(), prop_oneof![6 => 0u32..20, 6 => 0u32..400, 6 => 0u32..10_000, 1 => u32::MAX - 3..=u32::MAX]).prop_map(|(slot, n)| Op::Advance { slot, n }),
        2 => (slot(), any::<u8>()).prop_map(|(slot, f)| Op::AdvanceFrac { slot, f }),
        1 => slot().prop_map(|slot| Op::PopFront { slot }),
        2 => (slot(), prop_oneof![0u16..20, 0u16..400]).prop_map(|(slot, n)| Op::Read { slot, n }),
        1 => (slot(), 0u8..5, prop_oneof![0u16..20, 0u16..400]).prop_map(|(slot, how, n)| Op::ReadVia { slot, how, n }),
    ];
    let arena = prop_oneof![
        2 => slot().prop_map(|slot| Op::Flush { slot }),
        2 => (slot(), size()).prop_map(|(slot, len)| Op::Ensure { slot, len }),
        3 => (slot(), any::<u32>(), prop_oneof![0u16..4, 60u16..70, 0u16..300, 0u16..4200], any::<bool>()).prop_map(|(slot, off, leave, via_copy)| Op::FillChunk { slot, off, leave, via_copy }),
        1 => slot().prop_map(|slot| Op::TakeArenaBack { slot }),
        2 => slot().prop_map(|slot| Op::PushEmptyAnchor { slot }),
        1 => (slot(), slot()).prop_map(|(a, b)| Op::SwapArenas { a, b }),
        1 => slot().prop_map(|slot| Op::NewFromArena { slot }),
    ];
    let structure = prop_oneof![
        1 => slot().prop_map(|slot| Op::Clear { slot }),
        2 => slot().prop_map(|slot| Op::Take { slot }),
        2 => slot().prop_map(|slot| Op::CloneSlot { slot }),
        2 => slot().prop_map(|slot| Op::DropSlot { slot }),
        1 => (parts(), any::<bool>()).prop_map(|(parts, collect)| Op::FromSlices { parts, collect }),
    ];
    let clone_pending = (slot(), any::<u8>()).prop_map(|(slot, give)| Op::CloneWithPending { slot, give });
    let held = prop_oneof![
        3 => (slot(), any::<u32>(), prop_oneof![small_size(), 1000u32..5000]).prop_map(|(slot, off, len)| Op::Hold { slot, off, len }),
        2 => (any::<u8>(), prop_oneof![0u16..10, 0u16..300]).prop_map(|(idx, mid)| Op::HeldSplit { idx, mid }),
        1 => (any::<u8>(), 0u16..20).prop_map(|(idx, k)| Op::HeldSkip { idx, k }),
        1 => (any::<u8>(), 0u16..20).prop_map(|(idx, k)| Op::HeldDropSuffix { idx, k }),
        1 => any::<u8>().prop_map(|idx| Op::HeldClone { idx }),
        2 => any::<u8>().prop_map(|idx| Op::HeldDrop { idx }),
        1 => any::<u8>().prop_map(|idx| Op::HeldTake { idx }),
        2 => (any::<u8>(), slot()).prop_map(|(idx, slot)| Op::HeldPush { idx, slot }),
    ];
    let huge = prop_oneof![
        2 => (slot(), any::<u32>(), huge_size()).prop_map(|(slot, off, len)| Op::PushCopy { slot, off, len }),
        1 => (slot(), huge_size()).prop_map(|(slot, len)| Op::Ensure { slot, len }),
        1 => (slot(), any::<u32>(), huge_size()).prop_map(|(slot, off, len)| Op::Hold { slot, off, len }),
    ];
    match mix {
        Mix::General => prop_oneof![100 => push, 50 => patch, 70 => consume, 20 => arena, 20 => structure, 10 => held, 1 => huge, 4 => clone_pending].boxed(),
        Mix::Backpatch => prop_oneof![6 => small_push, 2 => push, 9 => patch, 6 => consume, 1 => arena, 1 => structure, 1 => clone_pending].boxed(),
        Mix::Memory => prop_oneof![8 => push, 3 => patch, 6 => consume, 3 => arena, 5 => structure, 6 => held].boxed(),
        Mix::Split => prop_oneof![9 => push, 5 => patch, 6 => consume, 1 => arena, 1 => held].boxed(),
    }
}

pub fn history(mix: Mix, max_ops: usize) -> BoxedStrategy<History> {
    match mix {
        Mix::Split => (
            proptest::collection::vec(op(Mix::Split), 0..max_ops / 2),
            any::<bool>(),
            any::<u8>(),
            proptest::collection::vec(op(Mix::Split), 1..max_ops / 2),
            proptest::option::weighted(0.3, any::<u8>()),
            proptest::collection::vec(any::<u8>(), 0..6),
        )
            .prop_map(|(mut prefix, clone, slot, suffix, drop_one, drop_order)| {
                if clone {
                    // A clone needs every placeholder filled: flush them first (C20's own precondition).
                    for _ in 0..6 {
                        prefix.push(Op::Backfill { slot, which: 0 });
                    }
                    prefix.push(Op::CloneSlot { slot });
                } else {
                    prefix.push(Op::Take { slot });
                }
                prefix.extend(suffix);
                if let Some(d) = drop_one {
                    let at = prefix.len() - (d as usize % 4).min(prefix.len() - 1);
                    prefix.insert(at, Op::DropSlot { slot: d });
                }
                History { ops: prefix, drop_order }
            })
            .boxed(),
        _ => (proptest::collection::vec(op(mix), 1..max_ops), proptest::collection::vec(any::<u8>(), 0..8))
            .prop_map(|(ops, drop_order)| History { ops, drop_order })
            .boxed(),
    }
}
