//! C19 — The NFS base time only moves forward, and only on evidence from trusted devices.
//!
//! `nfs_voucher`'s state is process-global (trusted paths, base time), so
//! every case runs in a fresh child process: `vp c19case` reads the case on
//! stdin, executes it with the oracle after every call, and prints a verdict.
use std::io::{Read, Write};
use std::os::unix::fs::MetadataExt;
use std::path::{Path, PathBuf};
use std::process::{Command, Stdio};

use proptest::prelude::*;
use serde::{Deserialize, Serialize};
use serde_json::Value;
use vouched_time::nfs_voucher;

use super::{parse_case, PropDef};
use crate::engine::{self, CaseResult, Ctx, Fail, Outcome, Report, Tier};

#[derive(Clone, Copy, Debug, PartialEq, Eq, Hash, Serialize, Deserialize)]
pub enum FileRef {
    /// A file created by this case on the device holding /verif (device A).
    FreshA(u8),
    /// A file that already existed on device A long before the case (old change-time).
    StaleA(u8),
    /// A file created by this case on /dev/shm (device B).
    FreshB(u8),
    /// /proc/self/stat
    Proc,
    /// /dev/null
    DevNull,
    /// The case's own directory on device A, opened as a file (a directory has a change-time too).
    DirA,
    /// The case's own directory on device B.
    DirB,
}

#[derive(Clone, Copy, Debug, PartialEq, Eq, Hash, Serialize, Deserialize)]
pub enum Now {
    Epoch,
    FarFuture,
    Real,
}

#[derive(Clone, Copy, Debug, PartialEq, Eq, Hash, Serialize, Deserialize)]
pub enum Call {
    AddTrustedA(u8),
    AddTrustedB(u8),
    Observe(FileRef),
    MaybeObserve(FileRef),
    Scan,
    GetBaseTime(Now),
    GetUnlocked,
    /// Bump a file's change-time (chmod).
    Touch(FileRef),
    SleepMs(u8),
    /// Sleep for this many milliseconds (directed cases only: lets the base time go stale
    /// so that the refresh branches of maybe_observe_file_time / scan_base_time run).
    SleepLong(u16),
    /// Replace a registered trusted path on disk by a symbolic link to another file
    /// (the path "moves to a different device", which the module anticipates).
    RepointTrusted { which: u8, to: FileRef },
    /// Set a fresh file's modification time a day into the future (`File::set_modified`): the
    /// change-time becomes "now", the modification time is whatever the caller says.  Only
    /// change-times are evidence.
    SetMtimeFuture(FileRef),
    /// `add_trusted_path` on a path that cannot be opened or created (a missing directory under A,
    /// or /proc): it must fail, trust nothing and leave the base time alone.
    AddTrustedBad(u8),
    /// `should_refresh_base_time(leeway, now)`: pure policy; whatever it answers, it must not move the base time.
    ShouldRefresh { leeway: Option<u16>, now: Option<Now> },
}

#[derive(Clone, Debug, PartialEq, Eq, Hash, Serialize, Deserialize)]
pub struct Case {
    pub calls: Vec<Call>,
}

#[derive(Clone, Debug, Default, Serialize, Deserialize)]
pub struct Verdict {
    pub ok: bool,
    pub sig: String,
    pub msg: String,
    pub untrusted_before_trusted: bool,
    pub stale_after_fresh: bool,
    pub base_moved: u32,
    pub device_b_available: bool,
    pub calls_run: u32,
    pub repointed: bool,
}

/// Files that exist long before the case starts, relative to the verification root (so that a run
/// from a snapshot looks at the snapshot's own files, which nobody edits meanwhile).
const STALE_FILES: [&str; 4] = ["harness/Cargo.toml", "properties.jsonl", "harness/src/main.rs", "check"];

struct Env {
    dir_a: PathBuf,
    dir_b: Option<PathBuf>,
    trusted_devs: Vec<u64>,
    trusted_paths: Vec<PathBuf>,
}

impl Env {
    fn path(&self, f: FileRef) -> Option<PathBuf> {
        Some(match f {
            FileRef::FreshA(i) => self.dir_a.join(format!("fresh-{}", i % 4)),
            FileRef::StaleA(i) => crate::engine::verif_root().join(STALE_FILES[i as usize % STALE_FILES.len()]),
            FileRef::FreshB(i) => self.dir_b.as_ref()?.join(format!("fresh-{}", i % 4)),
            FileRef::Proc => PathBuf::from("/proc/self/stat"),
            FileRef::DevNull => PathBuf::from("/dev/null"),
            FileRef::DirA => self.dir_a.clone(),
            FileRef::DirB => self.dir_b.clone()?,
        })
    }

    /// Opens (creating fresh files on demand) for reading.
    fn open(&self, f: FileRef) -> Option<std::fs::File> {
        let path = self.path(f)?;
        if matches!(f, FileRef::FreshA(_) | FileRef::FreshB(_)) && !path.exists() {
            std::fs::write(&path, b"x").ok()?;
        }
        std::fs::File::open(&path).ok()
    }
}

fn ctime_ms(meta: &std::fs::Metadata) -> u64 {
    (meta.ctime() as u64).saturating_mul(1000).saturating_add(meta.ctime_nsec() as u64 / 1_000_000)
}

fn base_now() -> (u64, raffle::Voucher) {
    nfs_voucher::get_base_time_unlocked(time::OffsetDateTime::UNIX_EPOCH).expect("get_base_time_unlocked never fails")
}

fn pair_ok(base: u64, voucher: raffle::Voucher) -> bool {
    let Ok(odt) = time::OffsetDateTime::from_unix_timestamp_nanos(base as i128 * 1_000_000) else {
        return false;
    };
    vouched_time::VouchedTime::check(time::PrimitiveDateTime::new(odt.date(), odt.time()), base, voucher).is_ok()
}

/// Executes the case in this (fresh) process.
fn execute(case: &Case) -> Verdict {
    let mut v = Verdict { ok: true, ..Default::default() };
    let pid = std::process::id();
    let dir_a = crate::engine::verif_root().join(format!("harness/target/vp-tmp/c19-{pid}"));
    let _ = std::fs::create_dir_all(&dir_a);
    let dir_b = {
        let d = PathBuf::from(format!("/dev/shm/vp-c19-{pid}"));
        let dev_a = std::fs::metadata(&dir_a).map(|m| m.dev()).ok();
        match std::fs::create_dir_all(&d) {
            Ok(()) if std::fs::metadata(&d).map(|m| m.dev()).ok() != dev_a => Some(d),
            _ => None,
        }
    };
    v.device_b_available = dir_b.is_some();
    let mut env = Env {
        dir_a,
        dir_b,
        trusted_devs: vec![],
        trusted_paths: vec![],
    };
    let mut saw_untrusted = false;
    let mut observed_fresh_trusted = false;
    let mut repointed = false;

    let fail = |v: &mut Verdict, sig: &str, msg: String| {
        v.ok = false;
        v.sig = sig.to_string();
        v.msg = msg;
    };

    for (i, call) in case.calls.iter().enumerate() {
        v.calls_run = i as u32 + 1;
        let (before, vb) = base_now();
        if !pair_ok(before, vb) {
            fail(&mut v, "bad-pair:unlocked", format!("before call #{i}: get_base_time_unlocked returned ({before}, ..) which fails VouchedTime's voucher check"));
            break;
        }
        // Change-times before the call, of every file the case can name: if somebody outside the
        // harness changes one of them while the call runs, both values (and what lies between) are legitimate.
        let ctimes_before: std::collections::HashMap<PathBuf, u64> = (0..4u8)
            .flat_map(|k| [FileRef::FreshA(k), FileRef::FreshB(k), FileRef::StaleA(k)])
            .filter_map(|f| env.path(f))
            .chain(env.trusted_paths.iter().cloned())
            .filter_map(|p| std::fs::metadata(&p).ok().map(|m| (p, ctime_ms(&m))))
            .collect();
        // Change-times the call may legitimately move the base time to.
        let mut allowed: Vec<PathBuf> = vec![];
        let mut returned: Vec<(u64, raffle::Voucher, &'static str)> = vec![];
        let mut must_not_move = false;
        let r = crate::engine::panics::catch(|| -> Result<(), String> {
            match *call {
                Call::AddTrustedA(k) | Call::AddTrustedB(k) => {
                    let f = if matches!(call, Call::AddTrustedA(_)) { FileRef::FreshA(k) } else { FileRef::FreshB(k) };
                    let Some(path) = env.path(f) else {
                        return Ok(());
                    };
                    allowed.push(path.clone());
                    nfs_voucher::add_trusted_path(path.clone()).map_err(|e| format!("add_trusted_path({}) failed: {e}", path.display()))?;
                    let dev = std::fs::metadata(&path).map_err(|e| e.to_string())?.dev();
                    if !env.trusted_devs.contains(&dev) {
                        env.trusted_devs.push(dev);
                    }
                    env.trusted_paths.push(path);
                }
                Call::Observe(f) | Call::MaybeObserve(f) => {
                    let Some(file) = env.open(f) else {
                        return Ok(());
                    };
                    let dev = file.metadata().map_err(|e| e.to_string())?.dev();
                    let trusted = env.trusted_devs.contains(&dev);
                    if trusted {
                        allowed.push(env.path(f).unwrap());
                        if matches!(f, FileRef::FreshA(_) | FileRef::FreshB(_)) {
                            observed_fresh_trusted = true;
                        } else if observed_fresh_trusted {
                            v.stale_after_fresh = true;
                        }
                    } else {
                        must_not_move = true;
                        saw_untrusted = true;
                    }
                    if env.trusted_devs.is_empty() {
                        // nothing trusted yet
                    } else if saw_untrusted && trusted {
                        v.untrusted_before_trusted = true;
                    }
                    if let Call::Observe(_) = call {
                        let (meta, update) = nfs_voucher::observe_file_time(&file).map_err(|e| format!("observe_file_time failed: {e}"))?;
                        match (trusted, update) {
                            (false, Some(_)) => return Err("VIOLATION:observe-untrusted-reports: observe_file_time reported a base time for a file on a device that is not trusted".into()),
                            (true, None) => return Err("VIOLATION:observe-trusted-reports-nothing: observe_file_time reported nothing for a file on a trusted device".into()),
                            (true, Some((ms, voucher))) => {
                                if ms != ctime_ms(&meta) {
                                    return Err(format!("VIOLATION:observe-wrong-time: observe_file_time reported {ms}, the file's change-time is {}", ctime_ms(&meta)));
                                }
                                returned.push((ms, voucher, "observe_file_time"));
                            }
                            (false, None) => {}
                        }
                    } else {
                        nfs_voucher::maybe_observe_file_time(&file);
                    }
                }
                Call::Scan => {
                    allowed.extend(env.trusted_paths.iter().cloned());
                    // May fail for I/O reasons; only the invariants matter.
                    let _ = nfs_voucher::scan_base_time();
                }
                Call::GetBaseTime(now) => {
                    allowed.extend(env.trusted_paths.iter().cloned());
                    let now = match now {
                        Now::Epoch => time::OffsetDateTime::UNIX_EPOCH,
                        Now::FarFuture => time::OffsetDateTime::from_unix_timestamp(4_000_000_000).unwrap(),
                        Now::Real => time::OffsetDateTime::now_utc(),
                    };
                    if let Ok((ms, voucher)) = nfs_voucher::get_base_time(now) {
                        returned.push((ms, voucher, "get_base_time"));
                    }
                }
                Call::GetUnlocked => {
                    must_not_move = true;
                    let (ms, voucher) = base_now();
                    returned.push((ms, voucher, "get_base_time_unlocked"));
                }
                Call::Touch(f) => {
                    must_not_move = true;
                    if matches!(f, FileRef::FreshA(_) | FileRef::FreshB(_)) {
                        if let Some(path) = env.path(f) {
                            if env.open(f).is_some() {
                                use std::os::unix::fs::PermissionsExt;
                                let mode = std::fs::metadata(&path).map(|m| m.permissions().mode()).unwrap_or(0o644);
                                let _ = std::fs::set_permissions(&path, std::fs::Permissions::from_mode(mode ^ 0o010));
                            }
                        }
                    }
                }
                Call::SetMtimeFuture(f) => {
                    must_not_move = true;
                    if matches!(f, FileRef::FreshA(_) | FileRef::FreshB(_)) {
                        if let Some(path) = env.path(f) {
                            if env.open(f).is_some() {
                                if let Ok(file) = std::fs::File::options().write(true).open(&path) {
                                    let _ = file.set_modified(std::time::SystemTime::now() + std::time::Duration::from_secs(86_400));
                                }
                            }
                        }
                    }
                }
                Call::AddTrustedBad(k) => {
                    must_not_move = true;
                    let path = if k % 2 == 0 { env.dir_a.join("no-such-directory").join(format!("f{k}")) } else { PathBuf::from(format!("/proc/vp-c19-no-such-{k}")) };
                    if nfs_voucher::add_trusted_path(path.clone()).is_ok() {
                        return Err(format!("VIOLATION:trusted-unusable-path: add_trusted_path({}) succeeded although the path can be neither opened nor created", path.display()));
                    }
                }
                Call::ShouldRefresh { leeway, now } => {
                    must_not_move = true;
                    let now = now.map(|n| match n {
                        Now::Epoch => time::OffsetDateTime::UNIX_EPOCH,
                        Now::FarFuture => time::OffsetDateTime::from_unix_timestamp(4_000_000_000).unwrap(),
                        Now::Real => time::OffsetDateTime::now_utc(),
                    });
                    let _ = nfs_voucher::should_refresh_base_time(leeway.map(u64::from), now);
                }
                Call::SleepMs(ms) => {
                    must_not_move = true;
                    std::thread::sleep(std::time::Duration::from_millis((ms % 6) as u64));
                }
                Call::SleepLong(ms) => {
                    must_not_move = true;
                    std::thread::sleep(std::time::Duration::from_millis(ms.min(3000) as u64));
                }
                Call::RepointTrusted { which, to } => {
                    must_not_move = true;
                    if !env.trusted_paths.is_empty() {
                        let path = env.trusted_paths[(which as usize * env.trusted_paths.len()) >> 8].clone();
                        if let (Some(target), Some(_)) = (env.path(to), env.open(to)) {
                            if target != path {
                                let _ = std::fs::remove_file(&path);
                                let _ = std::os::unix::fs::symlink(&target, &path);
                                repointed = true;
                            }
                        }
                    }
                }
            }
            Ok(())
        });
        match r {
            Err(p) => {
                fail(&mut v, &format!("panic:{}", p.signature()), format!("call #{i} {call:?} panicked: {}", p.describe()));
                break;
            }
            Ok(Err(msg)) => {
                if let Some(rest) = msg.strip_prefix("VIOLATION:") {
                    let (sig, text) = rest.split_once(": ").unwrap_or((rest, rest));
                    fail(&mut v, sig, format!("call #{i} {call:?}: {text}"));
                } else {
                    // An environment problem (I/O error): stop the case, it proves nothing.
                    v.msg = format!("stopped at call #{i} {call:?}: {msg}");
                }
                break;
            }
            Ok(Ok(())) => {}
        }
        for (ms, voucher, what) in &returned {
            if !pair_ok(*ms, *voucher) {
                fail(&mut v, "bad-pair", format!("call #{i} {call:?}: {what} returned ({ms}, ..) which fails VouchedTime's voucher check"));
            }
        }
        if !v.ok {
            break;
        }
        let (after, va) = base_now();
        if !pair_ok(after, va) {
            fail(&mut v, "bad-pair:unlocked", format!("after call #{i} {call:?}: get_base_time_unlocked returned a pair that fails the voucher check"));
            break;
        }
        if after < before {
            fail(&mut v, "base-time-went-back", format!("call #{i} {call:?} moved the base time from {before} back to {after}"));
            break;
        }
        if after != before {
            v.base_moved += 1;
            if env.trusted_devs.is_empty() {
                fail(&mut v, "moved-before-trust", format!("call #{i} {call:?} moved the base time to {after} although no device is trusted yet"));
                break;
            }
            if must_not_move {
                fail(&mut v, "moved-on-untrusted-evidence", format!("call #{i} {call:?} moved the base time from {before} to {after} although it had no trusted file to look at"));
                break;
            }
            // Only files that (now) live on a trusted device count as evidence.
            let evidence: Vec<(u64, u64)> = allowed
                .iter()
                .filter_map(|p| std::fs::metadata(p).ok().map(|m| (p, m)))
                .filter(|(_, m)| env.trusted_devs.contains(&m.dev()))
                .map(|(p, m)| {
                    let now = ctime_ms(&m);
                    let was = ctimes_before.get(p).copied().unwrap_or(now);
                    (was.min(now), was.max(now))
                })
                .collect();
            let ctimes: Vec<u64> = evidence.iter().map(|e| e.1).collect();
            if !evidence.iter().any(|(lo, hi)| (*lo..=*hi).contains(&after)) {
                fail(
                    &mut v,
                    "moved-to-unknown-time",
                    format!("call #{i} {call:?} moved the base time to {after}, which is not the change-time of any file it could legitimately have observed ({ctimes:?})"),
                );
                break;
            }
        }
    }
    v.repointed = repointed;
    let _ = std::fs::remove_dir_all(&env.dir_a);
    if let Some(b) = &env.dir_b {
        let _ = std::fs::remove_dir_all(b);
    }
    v
}

/// Entry point of the child process.
pub fn child_main() {
    let mut text = String::new();
    if std::io::stdin().read_to_string(&mut text).is_err() {
        std::process::exit(2);
    }
    let Ok(case) = serde_json::from_str::<Case>(&text) else {
        std::process::exit(2);
    };
    let verdict = execute(&case);
    println!("{}", serde_json::to_string(&verdict).unwrap());
}

pub fn check_case(case: &Case) -> CaseResult {
    let exe = std::env::current_exe().map_err(|e| Fail::new("harness:exe", e.to_string()))?;
    let mut child = Command::new(exe)
        .arg("c19case")
        .stdin(Stdio::piped())
        .stdout(Stdio::piped())
        .stderr(Stdio::null())
        .spawn()
        .map_err(|e| Fail::new("harness:spawn", e.to_string()))?;
    child.stdin.take().unwrap().write_all(serde_json::to_string(case).unwrap().as_bytes()).map_err(|e| Fail::new("harness:pipe", e.to_string()))?;
    let out = child.wait_with_output().map_err(|e| Fail::new("harness:wait", e.to_string()))?;
    if !out.status.success() {
        return Err(Fail::new("child-crashed", format!("the child process running the case ended with {}", out.status)));
    }
    let verdict: Verdict = serde_json::from_slice(&out.stdout).map_err(|e| Fail::new("harness:verdict", format!("unreadable verdict: {e}")))?;
    if !verdict.ok {
        return Err(Fail::new(verdict.sig, verdict.msg));
    }
    Ok(Outcome::new(verdict.untrusted_before_trusted || verdict.stale_after_fresh)
        .label_if(verdict.untrusted_before_trusted, "untrusted_observation_before_trusted_one")
        .label_if(verdict.stale_after_fresh, "stale_trusted_file_after_fresh_one")
        .label_if(verdict.base_moved > 0, "base_time_moved")
        .label_if(verdict.base_moved > 1, "base_time_moved_more_than_once")
        .label_if(verdict.repointed, "trusted_path_repointed_to_another_file")
        .label_if(!verdict.device_b_available, "no_second_writable_device")
        .label_if((verdict.calls_run as usize) < case.calls.len(), "stopped_early_on_io_error"))
}

fn file_ref() -> impl Strategy<Value = FileRef> {
    prop_oneof![
        4 => (0u8..4).prop_map(FileRef::FreshA),
        3 => (0u8..4).prop_map(FileRef::StaleA),
        3 => (0u8..4).prop_map(FileRef::FreshB),
        1 => Just(FileRef::Proc),
        1 => Just(FileRef::DevNull),
        1 => Just(FileRef::DirA),
        1 => Just(FileRef::DirB),
    ]
}

fn call() -> impl Strategy<Value = Call> {
    prop_oneof![
        2 => (0u8..4).prop_map(Call::AddTrustedA),
        1 => (0u8..4).prop_map(Call::AddTrustedB),
        1 => (0u8..4).prop_map(Call::AddTrustedBad),
        8 => file_ref().prop_map(Call::Observe),
        2 => file_ref().prop_map(Call::MaybeObserve),
        1 => Just(Call::Scan),
        2 => prop_oneof![Just(Now::Epoch), Just(Now::FarFuture), Just(Now::Real)].prop_map(Call::GetBaseTime),
        1 => Just(Call::GetUnlocked),
        2 => file_ref().prop_map(Call::Touch),
        2 => file_ref().prop_map(Call::SetMtimeFuture),
        2 => (1u8..6).prop_map(Call::SleepMs),
        2 => (any::<u8>(), file_ref()).prop_map(|(which, to)| Call::RepointTrusted { which, to }),
        1 => (proptest::option::of(prop_oneof![Just(0u16), 1u16..3000, any::<u16>()]), proptest::option::of(prop_oneof![Just(Now::Epoch), Just(Now::FarFuture), Just(Now::Real)]))
            .prop_map(|(leeway, now)| Call::ShouldRefresh { leeway, now }),
    ]
}

fn case_strategy() -> impl Strategy<Value = Case> {
    proptest::collection::vec(call(), 1..21).prop_map(|calls| Case { calls })
}

/// Directed histories that let the base time go stale (seconds of sleep), so that the
/// refresh branches run; each is still judged by the same oracle.
fn refresh_path_cases() -> Vec<Case> {
    use Call::*;
    use FileRef::*;
    let cases: Vec<Vec<Call>> = vec![
        vec![AddTrustedA(0), SleepLong(2100), MaybeObserve(FreshA(1)), GetUnlocked, MaybeObserve(StaleA(0))],
        vec![AddTrustedA(0), SleepLong(1150), Scan, GetUnlocked, Scan],
        vec![AddTrustedA(0), Observe(FreshB(0)), SleepLong(2100), MaybeObserve(FreshB(0)), GetUnlocked, MaybeObserve(FreshA(2))],
        vec![AddTrustedA(0), RepointTrusted { which: 0, to: FreshB(1) }, SleepLong(1150), Scan, GetBaseTime(Now::Real), GetUnlocked],
        vec![AddTrustedB(0), SleepLong(2100), GetBaseTime(Now::Real), Observe(FreshA(0)), MaybeObserve(FreshA(0))],
        vec![AddTrustedA(1), AddTrustedB(1), SleepLong(1150), RepointTrusted { which: 0, to: DevNull }, Scan, GetUnlocked],
        vec![AddTrustedA(0), SleepLong(2100), MaybeObserve(Proc), MaybeObserve(DevNull), GetUnlocked, MaybeObserve(FreshA(3)), GetUnlocked],
        vec![AddTrustedA(2), Touch(FreshA(2)), SleepLong(2100), MaybeObserve(StaleA(1)), GetUnlocked, Scan],
    ];
    cases.into_iter().map(|calls| Case { calls }).collect()
}

pub fn run(ctx: &Ctx, rep: &mut Report) {
    engine::enumerate(ctx, rep, "refresh-paths", refresh_path_cases().into_iter(), check_case);
    let cases = ctx.share(ctx.tier.pick(6_000, 400_000));
    engine::drive_opts(ctx, rep, "histories", case_strategy(), cases, check_case, true);
}

fn replay(_ctx: &Ctx, _group: &str, case: &Value) -> CaseResult {
    check_case(&parse_case::<Case>(case)?)
}

pub fn def() -> PropDef {
    PropDef {
        id: "C19",
        rule: "Each case runs in a fresh child process (the module state is process-global). A case is a sequence of 1..20 calls: add_trusted_path on the device holding /verif (A) or on /dev/shm (B) or on a path that can be neither opened nor created (must fail and change nothing), observe_file_time / maybe_observe_file_time on files created by the case on A or B, on files that existed long before (old change-times) on A, on /proc/self/stat and /dev/null, on the case's own directories (opened as files), scan_base_time, get_base_time with 'now' at the epoch / far in the future / real, get_base_time_unlocked, should_refresh_base_time with generated leeway and 'now' (pure policy: it must not move the base time), chmod of a fresh file (bumps its change-time), setting a fresh file's modification time a day ahead (only change-times are evidence), short sleeps (and, in eight directed refresh-paths histories, sleeps of 1.1 - 2.1 s that let the base time go stale so that the refresh branches of maybe_observe_file_time and scan_base_time run), and replacing a registered trusted path on disk by a symbolic link to another file (on the same, the other writable, or a read-only device). With b = get_base_time_unlocked before and after every call: b never decreases; if it changed, a device is trusted, the call had trusted evidence to look at, and the new value is the change-time (ms, read back with stat) of a file the call could legitimately have observed (its argument if its device is trusted, the path being registered, or a registered path for scan / refresh - in every case only if the file it now resolves to lives on a trusted device); observe_file_time on an untrusted device reports nothing and on a trusted one reports exactly that file's change-time; every (base, voucher) pair returned by any call passes VouchedTime::check. The oracle never predicts whether the refresh policy fires. Non-trivial: an observation on an untrusted device followed later by one on a trusted device, or an old trusted file observed after a fresh one. Distinct: hash of the serialised case.",
        assumptions: &[
            "only two writable devices exist in the sandbox (the ext4 device holding /verif and /dev/shm); real NFS semantics are out of reach",
            "a call that fails with an I/O error ends the case without a verdict for the remaining calls",
        ],
        exhaustive_note: None,
        shards: |t: Tier| t.pick(8, 16),
        run,
        replay,
    }
}
