//! C19 — placeholder until the module is written.
pub fn child_main() {
    std::process::exit(2);
}
