//! C09 — Streaming codecs: drained output is a prefix of the result; lag is bounded.
use proptest::prelude::*;
use serde_json::{json, Value};

use super::codec::{self, CodecCase, Drain};
use super::streaming::{self, StreamCase};
use super::{parse_case, PropDef};
use crate::engine::{self, CaseResult, Ctx, Fail, Outcome, Report, Tier};

/// Short messages with dense drain schedules: prefix, no loss / duplication, lag.
pub fn check_case(case: &CodecCase) -> CaseResult {
    let plain = case.payload.bytes();
    let pre = &case.pre.0;
    let enc = codec::run_encoder(&plain, pre, &case.enc, true)?;
    // Completeness: drained ++ finish() is the complete output (what a fresh
    // encoder produces for the same input in one call).
    let mut want = pre.clone();
    want.extend_from_slice(&codec::encode_once(&plain));
    if enc.output != want {
        return Err(Fail::new(
            "encoder:incomplete-output",
            codec::mismatch("early-drained ++ finish() differs from the complete output", &enc.output, &want),
        ));
    }
    let stream = &enc.output[pre.len()..];
    let dec = codec::run_decoder(stream, &case.dec, true)?;
    match &dec.result {
        Ok(back) if *back == plain => {}
        Ok(back) => return Err(Fail::new("decoder:incomplete-output", codec::mismatch("early-drained ++ finish() of the decoder differs from the message", back, &plain))),
        Err(e) => return Err(Fail::new("decoder:rejected-valid-stream", format!("decoder rejected the encoder's output: {e}"))),
    }
    let mid = enc.obs.mid_slice_drain || dec.obs.mid_slice_drain;
    let big_lag = enc.obs.max_lag > 64 * 1024;
    Ok(Outcome::new(mid || big_lag)
        .label_if(mid, "drain_stops_mid_slice")
        .label_if(big_lag, "lag>64KiB")
        .label_if(enc.obs.drains_done >= 3, "enc>=3_drains")
        .label_if(dec.obs.drains_done >= 3, "dec>=3_drains"))
}

fn dense_case(allow_large: bool) -> impl Strategy<Value = CodecCase> {
    (codec::codec_case(allow_large), proptest::collection::vec(codec::drain(), 1..5), proptest::collection::vec(codec::drain(), 1..5)).prop_map(|(mut case, mut d1, mut d2)| {
        // Make sure draining actually happens on both sides.
        if d1.iter().all(|d| *d == Drain::Nothing) {
            d1.push(Drain::AdvanceFrac(128));
        }
        if d2.iter().all(|d| *d == Drain::Nothing) {
            d2.push(Drain::Read(7));
        }
        case.enc.drains = d1;
        case.dec.drains = d2;
        case
    })
}

pub fn check_stream(case: &StreamCase) -> CaseResult {
    let plain = streaming::plain_of(case);
    let stats = streaming::run_stream(case, &plain)?;
    Ok(Outcome::new(stats.mid_slice_drains > 0 || stats.max_encoder_lag > 64 * 1024)
        .label_if(stats.max_encoder_lag > 64 * 1024, "lag>64KiB")
        .label_if(stats.max_encoder_lag > 1 << 20, "lag>1MiB")
        .label_if(stats.mid_slice_drains > 0, "drain_stops_mid_slice")
        .label(match case.kind {
            streaming::Kind::Encoder => "encoder_stream",
            streaming::Kind::Decoder => "decoder_stream",
            streaming::Kind::Pipeline => "pipeline_stream",
        }))
}

pub fn run(ctx: &Ctx, rep: &mut Report) {
    let cases = ctx.share(ctx.tier.pick(45_000, 300_000));
    engine::drive(ctx, rep, "dense-drains", dense_case(false), cases, check_case);
    let cases = ctx.share(ctx.tier.pick(4_500, 30_000));
    engine::drive(ctx, rep, "dense-drains-large", dense_case(true), cases, check_case);
    // The same cases while another object of the process holds tens to hundreds of MiB of arena memory.
    let cases = ctx.share(ctx.tier.pick(4_000, 100_000));
    {
        let _ballast = super::iovec_sm::Ballast::new(super::iovec_sm::BALLAST_MIB);
        engine::drive(ctx, rep, "dense-drains-with-ballast", dense_case(false), cases, check_case);
    }
    // Long streams: the lag bound must not depend on the stream length.
    let (lo, hi, n) = ctx.tier.pick((2 * 1024, 24 * 1024, 24), (16 * 1024, 320 * 1024, 160));
    let cases = ctx.share(n);
    let max_lag = std::cell::Cell::new(0usize);
    let total = std::cell::Cell::new(0u64);
    engine::drive(ctx, rep, "long-streams", streaming::stream_case(lo, hi), cases, |case: &StreamCase| {
        let plain = streaming::plain_of(case);
        let stats = streaming::run_stream(case, &plain)?;
        max_lag.set(max_lag.get().max(stats.max_encoder_lag));
        total.set(total.get() + plain.len() as u64);
        check_stream_outcome(case, &stats)
    });
    rep.sub_set("long-streams", "max_encoder_lag_seen", json!(max_lag.get()));
    rep.sub_set("long-streams", "bound_encoder_lag", json!(codec::ENCODER_LAG_BOUND));
    rep.sub_add("long-streams", "bytes_streamed", total.get());
}

fn check_stream_outcome(case: &StreamCase, stats: &streaming::StreamStats) -> CaseResult {
    Ok(Outcome::new(stats.mid_slice_drains > 0 || stats.max_encoder_lag > 64 * 1024)
        .label_if(stats.max_encoder_lag > 64 * 1024, "lag>64KiB")
        .label_if(stats.max_encoder_lag > 1 << 20, "lag>1MiB")
        .label_if(stats.mid_slice_drains > 0, "drain_stops_mid_slice")
        .label(match case.kind {
            streaming::Kind::Encoder => "encoder_stream",
            streaming::Kind::Decoder => "decoder_stream",
            streaming::Kind::Pipeline => "pipeline_stream",
        }))
}

fn replay(_ctx: &Ctx, group: &str, case: &Value) -> CaseResult {
    if group == "long-streams" {
        check_stream(&parse_case::<StreamCase>(case)?)
    } else if group.ends_with("with-ballast") {
        super::iovec_sm::check_with_ballast(&parse_case::<CodecCase>(case)?, check_case)
    } else {
        check_case(&parse_case::<CodecCase>(case)?)
    }
}

pub fn def() -> PropDef {
    PropDef {
        id: "C09",
        rule: "dense-drains groups: C01's case type with at least one real drain action per side; after every encoder/decoder call the consumable bytes are recorded: a byte once observable never changes, drained bytes are exactly the observable prefix, everything observable is a prefix of drained ++ finish(), and that equals the complete output (one-call encoding / the original message); lag = total_size - consumable bytes must be <= 2^20 + 64008 + 2 for the Encoder and 0 (with iovs() Ok) for the Decoder. long-streams: plain streams of 2..24 MiB (16..320 MiB in thorough) of four shapes (stuff-free, FE/FD-dense, mixed, rare stuff sequences) fed through Encoder, Decoder or an Encoder->Decoder pipeline in phases of pieces of 1 B..1 MiB (including runs of pieces of exactly the maximum) with all four input methods, draining every k-th call by slices or bytes. Non-trivial: a drain that stops in the middle of a slice, or a call after which the encoder lag exceeds 64 KiB. Distinct: hash of the serialised case.",
        assumptions: &[
            "the arena is never asked for more than 1 MiB at once (the lag bound is 'one arena chunk + one HCOBS chunk and its header')",
            "the lag bound is checked as a constant, not minimised",
        ],
        exhaustive_note: None,
        shards: |t: Tier| t.pick(8, 16),
        run,
        replay,
    }
}
