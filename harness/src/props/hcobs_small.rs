//! Small-scope exhaustive enumerations of the HCOBS state machines through
//! the `hcobs::verif` hook (caller-chosen chunk limits, as the crate's own
//! unit tests do with 3 / 5).
use serde::{Deserialize, Serialize};
use serde_json::json;

use crate::engine::bytespec::{show, Hex};
use crate::engine::{CaseResult, Ctx, Fail, Outcome, Report};
use crate::refimpl::hcobs_ref;

pub const LIMIT_PAIRS: [(usize, usize); 4] = [(3, 5), (1, 2), (2, 2), (4, 7)];

#[derive(Clone, Copy, Debug, PartialEq, Eq)]
pub enum Focus {
    RoundTrip,
    StuffFreeAndSplitIndependent,
    Canonical,
}

/// One enumerated encoder-side item: a plain string, limits, a 2-way cut and methods.
#[derive(Clone, Debug, Serialize, Deserialize)]
pub struct SmallEnc {
    pub plain: Hex,
    pub limits: (usize, usize),
    pub cut: usize,
    pub copy: (bool, bool),
}

/// One enumerated decoder-side item.
#[derive(Clone, Debug, Serialize, Deserialize)]
pub struct SmallDec {
    pub stream: Hex,
    pub limits: (usize, usize),
    pub cut: usize,
    pub copy: (bool, bool),
}

fn strings(alphabet: &[u8], max_len: usize) -> Vec<Vec<u8>> {
    let mut all = vec![vec![]];
    let mut frontier = vec![vec![]];
    for _ in 0..max_len {
        let mut next = vec![];
        for s in &frontier {
            for &b in alphabet {
                let mut t: Vec<u8> = s.clone();
                t.push(b);
                next.push(t);
            }
        }
        all.extend(next.iter().cloned());
        frontier = next;
    }
    all
}

fn pieces<'a>(bytes: &'a [u8], cut: usize, copy: (bool, bool)) -> Vec<(&'a [u8], bool)> {
    if cut == 0 {
        // A single call.
        vec![(bytes, copy.0)]
    } else {
        vec![(&bytes[..cut], copy.0), (&bytes[cut..], copy.1)]
    }
}

pub fn check_small_enc(case: &SmallEnc, focus: Focus) -> CaseResult {
    let plain = &case.plain.0;
    let (l1, l2) = case.limits;
    let out = hcobs::verif::encode_with_limits(&pieces(plain, case.cut, case.copy), l1, l2);
    let nt = hcobs_ref::contains_stuff(plain).is_some() || plain.len() >= l1;
    match focus {
        Focus::Canonical => {
            let want = hcobs_ref::encode(plain, l1, l2);
            if out != want {
                return Err(Fail::new("small:encoder-not-canonical", format!("limits {l1}/{l2}, input {}: produced {}, canonical encoding is {}", show(plain), show(&out), show(&want))));
            }
        }
        Focus::StuffFreeAndSplitIndependent => {
            if hcobs_ref::contains_stuff(&out).is_some() {
                return Err(Fail::new("small:stuff-in-output", format!("limits {l1}/{l2}, input {}: output {} contains FE FD", show(plain), show(&out))));
            }
            let single = hcobs::verif::encode_with_limits(&[(plain, true)], l1, l2);
            if out != single {
                return Err(Fail::new("small:split-dependent", format!("limits {l1}/{l2}, input {} cut at {}: {} vs single call {}", show(plain), case.cut, show(&out), show(&single))));
            }
        }
        Focus::RoundTrip => {
            // Decode with every 2-way cut and method pair.
            for cut in 0..out.len() {
                for copy in [(false, false), (true, false), (false, true), (true, true)] {
                    if cut == 0 && copy.1 {
                        continue;
                    }
                    match hcobs::verif::decode_with_limits(&pieces(&out, cut, copy), l1, l2) {
                        Ok(back) if back == *plain => {}
                        Ok(back) => {
                            return Err(Fail::new("small:roundtrip-mismatch", format!("limits {l1}/{l2}, input {}: encoded {}, decoded (cut {cut}) {}", show(plain), show(&out), show(&back))));
                        }
                        Err(e) => {
                            return Err(Fail::new("small:roundtrip-rejected", format!("limits {l1}/{l2}, input {}: encoded {} rejected by the decoder (cut {cut}): {e}", show(plain), show(&out))));
                        }
                    }
                }
            }
        }
    }
    Ok(Outcome::new(nt))
}

/// Enumerates all strings over {FE, FD, 00} up to `max_len` x limit pairs x
/// 2-way cuts x copy/borrow per piece.
pub fn enumerate_enc(ctx: &Ctx, rep: &mut Report, focus: Focus, max_len: usize) {
    let group = "small-scope-encoder";
    crate::engine::set_group(group);
    let all = strings(&[0xFE, 0xFD, 0x00], max_len);
    let mut count = 0u64;
    let mut nontrivial = 0u64;
    for (index, plain) in all.iter().enumerate() {
        if !ctx.owns(index as u64) {
            continue;
        }
        for limits in LIMIT_PAIRS {
            for cut in 0..plain.len().max(1) {
                for copy in [(false, false), (true, false), (false, true), (true, true)] {
                    if cut == 0 && copy.1 {
                        continue;
                    }
                    let case = SmallEnc {
                        plain: Hex(plain.clone()),
                        limits,
                        cut,
                        copy,
                    };
                    match crate::engine::guarded(&case, &|c: &SmallEnc| check_small_enc(c, focus)) {
                        Ok(o) => {
                            count += 1;
                            if o.nontrivial {
                                nontrivial += 1;
                            }
                        }
                        Err(fail) => {
                            rep.evaluations += count + 1;
                            rep.add_failure(ctx, group, &case, fail);
                            return;
                        }
                    }
                }
            }
        }
    }
    rep.add_enumerated(group, count, nontrivial);
    rep.sub_set(group, "alphabet", json!("FE FD 00"));
    rep.sub_set(group, "max_len", json!(max_len));
    rep.sub_set(group, "limit_pairs", json!(format!("{LIMIT_PAIRS:?}")));
    rep.sub_set(group, "exhaustive", json!(true));
    rep.add_sample(group, json!({"plain": "fefd00fe", "limits": [3, 5], "cut": 2, "copy": [true, false], "note": "every string up to max_len x limit pair x 2-way cut x copy/borrow per piece"}));
}

pub fn check_small_dec(case: &SmallDec) -> CaseResult {
    let stream = &case.stream.0;
    let (l1, l2) = case.limits;
    let got = hcobs::verif::decode_with_limits(&pieces(stream, case.cut, case.copy), l1, l2);
    let want = hcobs_ref::decode(stream, l1, l2);
    let nt = match &want {
        Ok(_) => stream.len() > 1 + l1,
        Err(r) => *r != hcobs_ref::Reject::Empty,
    };
    match (got, want) {
        (Ok(a), Ok(b)) if a == b => {}
        (Ok(a), Ok(b)) => {
            return Err(Fail::new("small:decoder-wrong-bytes", format!("limits {l1}/{l2}, stream {} (cut {}): decoded {}, the format defines {}", show(stream), case.cut, show(&a), show(&b))));
        }
        (Err(_), Err(_)) => {}
        (Ok(a), Err(r)) => {
            return Err(Fail::new("small:decoder-accepts-malformed", format!("limits {l1}/{l2}, stream {} (cut {}): accepted as {}, but it is malformed ({r:?})", show(stream), case.cut, show(&a))));
        }
        (Err(e), Ok(b)) => {
            return Err(Fail::new("small:decoder-rejects-wellformed", format!("limits {l1}/{l2}, stream {} (cut {}): rejected ({e}), but it is well formed and decodes to {}", show(stream), case.cut, show(&b))));
        }
    }
    Ok(Outcome::new(nt))
}

/// Enumerates every byte string over a header-relevant alphabet up to
/// `max_len`, for two tiny limit pairs, with every 2-way cut and method pair.
pub fn enumerate_dec(ctx: &Ctx, rep: &mut Report, max_len: usize) {
    let group = "small-scope-decoder";
    crate::engine::set_group(group);
    let configs: [((usize, usize), &[u8], usize); 2] = [
        ((3, 5), &[0x00, 0x01, 0x02, 0x03, 0x04, 0x05, 0xFC, 0xFD, 0xFE], max_len),
        ((2, 3), &[0x00, 0x01, 0x02, 0x03, 0x04, 0xFD, 0xFE], max_len + 1),
    ];
    let mut count = 0u64;
    let mut nontrivial = 0u64;
    for (limits, alphabet, max_len) in configs {
        let all = strings(alphabet, max_len);
        for (index, stream) in all.iter().enumerate() {
            if !ctx.owns(index as u64) {
                continue;
            }
            for cut in 0..stream.len().max(1) {
                for copy in [(false, false), (true, false), (false, true), (true, true)] {
                    if cut == 0 && copy.1 {
                        continue;
                    }
                    let case = SmallDec {
                        stream: Hex(stream.clone()),
                        limits,
                        cut,
                        copy,
                    };
                    match crate::engine::guarded(&case, &check_small_dec) {
                        Ok(o) => {
                            count += 1;
                            if o.nontrivial {
                                nontrivial += 1;
                            }
                        }
                        Err(fail) => {
                            rep.evaluations += count + 1;
                            rep.add_failure(ctx, group, &case, fail);
                            return;
                        }
                    }
                }
            }
        }
    }
    rep.add_enumerated(group, count, nontrivial);
    rep.sub_set(group, "configs", json!("limits 3/5 over {00,01,02,03,04,05,FC,FD,FE} up to max_len; limits 2/3 over {00,01,02,03,04,FD,FE} up to max_len+1"));
    rep.sub_set(group, "max_len", json!(max_len));
    rep.sub_set(group, "exhaustive", json!(true));
    rep.add_sample(group, json!({"stream": "03010203fd", "limits": [3, 5], "cut": 1, "copy": [false, true], "note": "every string up to max_len x 2-way cut x copy/borrow per piece"}));
}
