//! C10 — Arena memory is reclaimed: no leak after drop, bounded footprint in streaming.
use owning_iovec::ByteArena;
use proptest::prelude::*;
use serde::{Deserialize, Serialize};
use serde_json::{json, Value};

use super::codec::{self, CodecCase};
use super::iovec_sm::{self, History, Mix, Profile};
use super::streaming::{self, DrainHow, Kind, StreamCase};
use super::{c05, c06, c08, parse_case, PropDef};
use crate::engine::{self, CaseResult, Ctx, Fail, Outcome, Report, Tier};

const PROFILE: Profile = Profile {
    check_pipe: false,
    check_mem: false,
    check_leak: true,
};

pub fn check_history(h: &History) -> CaseResult {
    let st = iovec_sm::run_history(h, PROFILE)?;
    let nontrivial = st.clones > 0 || st.taken_arenas > 0 || (st.anchored_pushes > 0 && st.partial_byte_consumptions > 0);
    Ok(Outcome::new(nontrivial)
        .label_if(st.clones > 0, "clone")
        .label_if(st.taken_arenas > 0, "arena_taken_or_swapped")
        .label_if(st.anchored_pushes > 0 && st.partial_byte_consumptions > 0, "anchor_behind_partially_consumed_slice")
        .label_if(st.takes > 0, "take")
        .label_if(st.held_ops > 0, "held_anchored_slices")
        .label_if(st.chunk_creations >= 3, ">=3_chunks"))
}

/// Runs `f` (which must drop everything it creates) and checks the counters.
fn leak_checked(what: &str, f: impl FnOnce() -> CaseResult) -> CaseResult {
    let before = (ByteArena::num_live_chunks(), ByteArena::num_live_bytes());
    let r = f();
    let after = (ByteArena::num_live_chunks(), ByteArena::num_live_bytes());
    let outcome = r?;
    if before != after {
        return Err(Fail::new(
            "leak",
            format!("{what}: after dropping every object the live-chunk counters went from {before:?} to {after:?} (chunks, bytes)"),
        ));
    }
    Ok(outcome)
}

/// Several threads, each working on arena-backed objects entirely of its own (nothing is shared or
/// moved between them), all at the same time: once every thread is joined and every object
/// dropped, the process-wide counters must be back where they were.  The interleaving is the
/// operating system's, so a lost update is found with some probability only; a difference after
/// the join is nevertheless hard evidence (nothing else touches the counters in this process).
#[derive(Clone, Debug, PartialEq, Eq, Hash, Serialize, Deserialize)]
pub struct ConcurrentCase {
    pub threads: u8,
    pub rounds: u16,
    /// Arena request size of thread t in round r is `16 + ((t + 1) * (r + 1) * size_mul) % 6000`.
    pub size_mul: u16,
}

pub fn check_concurrent(case: &ConcurrentCase) -> CaseResult {
    // Long-lived objects keep the counters well away from zero for the duration.
    let parked: Vec<ByteArena> = (0..8)
        .map(|_| {
            let mut a = ByteArena::new();
            a.ensure_capacity(64);
            a
        })
        .collect();
    let r = leak_checked("independent objects on concurrent threads", || {
        let threads = case.threads.clamp(2, 12) as usize;
        let rounds = case.rounds as usize;
        let mul = case.size_mul as usize;
        let go = std::sync::Arc::new(std::sync::Barrier::new(threads));
        let handles: Vec<_> = (0..threads)
            .map(|t| {
                let go = go.clone();
                std::thread::spawn(move || {
                    go.wait();
                    for r in 0..rounds {
                        let size = 16 + ((t + 1) * (r + 1) * mul) % 6000;
                        let mut arena = ByteArena::new();
                        arena.ensure_capacity(size);
                        if r % 4 == 0 {
                            let mut io = owning_iovec::OwningIovec::new();
                            io.push_copy(&[t as u8; 80]);
                            drop(io);
                        }
                        drop(arena);
                    }
                })
            })
            .collect();
        for h in handles {
            h.join().map_err(|_| Fail::new("panic:concurrent", "a thread working on its own arenas panicked".to_string()))?;
        }
        Ok(Outcome::new(threads >= 4 && rounds >= 1000))
    });
    drop(parked);
    r
}

pub fn check_codec(case: &CodecCase) -> CaseResult {
    leak_checked("Encoder/Decoder run", || {
        let plain = case.payload.bytes();
        let enc = codec::run_encoder(&plain, &case.pre.0, &case.enc, false)?;
        let dec = codec::run_decoder(&enc.output[case.pre.0.len().min(enc.output.len())..], &case.dec, false)?;
        Ok(Outcome::new(enc.obs.drains_done + dec.obs.drains_done > 0 && plain.len() > 252).label_if(enc.obs.methods_used.contains("anchored") || dec.obs.methods_used.contains("anchored"), "anchored_input"))
    })
}

pub fn check_reader(case: &c06::Case) -> CaseResult {
    leak_checked("StreamReader run", || c06::check_case(case).map(|o| Outcome::new(o.nontrivial)))
}

pub fn check_chunker(case: &c08::Case) -> CaseResult {
    leak_checked("StreamChunker run", || c08::check_case(case).map(|o| Outcome::new(o.nontrivial)))
}

pub fn check_held_streams(case: &c05::StreamCase, reader: bool) -> CaseResult {
    // c05's runs hold chunks / record clones and release them in a generated order.
    leak_checked("held chunks / record clones", || if reader { c05::check_reader(case) } else { c05::check_chunker(case) }.map(|o| Outcome::new(o.nontrivial)))
}

pub const MIB: usize = 1 << 20;

/// Footprint bound for a streaming case: the cache chunk plus at most two
/// chunks pinned by the unconsumable tail, with margin (4 MiB per codec),
/// plus what the consumer is allowed to leave unconsumed between drains.
pub fn footprint_bound(case: &StreamCase) -> usize {
    let codecs = if case.kind == Kind::Pipeline { 2 } else { 1 };
    let slack = (case.every as usize - 1) * (case.max_piece as usize + 2 * 4096) * 2;
    codecs * (4 * MIB + slack)
}

pub fn check_footprint(case: &StreamCase) -> CaseResult {
    check_footprint_measured(case, &mut |_, _| {})
}

fn check_footprint_measured(case: &StreamCase, measured: &mut dyn FnMut(usize, usize)) -> CaseResult {
    leak_checked("streaming run", || {
        let plain = streaming::plain_of(case);
        let stats = streaming::run_stream(case, &plain)?;
        let bound = footprint_bound(case);
        let peak = stats.peak_live_first_half.max(stats.peak_live_second_half);
        measured(peak / if case.kind == Kind::Pipeline { 2 } else { 1 }, stats.peak_live_chunks);
        if peak > bound {
            return Err(Fail::new(
                "footprint:bound",
                format!("{:?} stream of {} KiB: {peak} live arena bytes at the peak, bound {bound}", case.kind, case.kib),
            ));
        }
        let codecs = if case.kind == Kind::Pipeline { 2 } else { 1 };
        // The two halves are not fed identically (the plan has phases with different piece sizes,
        // and the consumer may leave `every` calls' worth unconsumed): what one call can add, times
        // the calls between drains, is natural variation between the halves, not growth.  A leak of
        // one chunk per arena turnover is an order of magnitude above this on these stream lengths.
        let variation = case.every as usize * 2 * (case.max_piece as usize + 2 * 4096);
        if stats.peak_live_second_half > stats.peak_live_first_half + codecs * (MIB + variation) {
            return Err(Fail::new(
                "footprint:grows",
                format!(
                    "{:?} stream of {} KiB: peak live bytes grew from {} (first half) to {} (second half)",
                    case.kind, case.kib, stats.peak_live_first_half, stats.peak_live_second_half
                ),
            ));
        }
        Ok(Outcome::new(case.kib >= 16 * 1024)
            .label_if(case.kib >= 16 * 1024, "stream>=16MiB")
            .label(match case.kind {
                Kind::Encoder => "encoder_stream",
                Kind::Decoder => "decoder_stream",
                Kind::Pipeline => "pipeline_stream",
            }))
    })
}

/// A long stream of delimited records read through one StreamReader: the
/// reader recycles its iovec with `clear()`, so its footprint must not grow.
#[derive(Clone, Debug, PartialEq, Eq, Hash, serde::Serialize, serde::Deserialize)]
pub struct ReaderFootprintCase {
    pub kib: u32,
    /// Relative weights of the record kinds: empty, one byte, invalid first byte,
    /// 300 bytes, 5000 bytes, 70000 bytes, extra delimiter.
    pub weights: [u8; 7],
    pub seed: u32,
    /// Index into [4096, 65536, 262144, default].
    pub block: u8,
}

fn reader_stream(case: &ReaderFootprintCase) -> Vec<u8> {
    use crate::refimpl::hcobs_ref;
    let total = case.kib as usize * 1024;
    let enc = |p: &[u8]| hcobs_ref::encode(p, hcobs_ref::LIMIT_FIRST, hcobs_ref::LIMIT_LATER);
    let kinds: [Vec<u8>; 7] = [
        enc(&[]),
        enc(b"x"),
        vec![0xFF, 0x41, 0x42],
        enc(&vec![0x33; 300]),
        enc(&(0..5000u32).map(|i| (i % 251) as u8).collect::<Vec<u8>>()),
        enc(&vec![0x44; 70_000]),
        vec![],
    ];
    let sum: u32 = case.weights.iter().map(|w| *w as u32).sum::<u32>().max(1);
    let mut st = case.seed as u64 ^ 0x1234_5678_9abc;
    let mut out = Vec::with_capacity(total + 80_000);
    while out.len() < total {
        st = st.wrapping_mul(6364136223846793005).wrapping_add(1442695040888963407);
        let mut pick = ((st >> 33) as u32) % sum;
        let mut k = 0;
        for (i, w) in case.weights.iter().enumerate() {
            if pick < *w as u32 {
                k = i;
                break;
            }
            pick -= *w as u32;
        }
        out.extend_from_slice(&kinds[k]);
        out.extend_from_slice(&[0xFE, 0xFD]);
    }
    out
}

pub fn check_reader_footprint(case: &ReaderFootprintCase) -> CaseResult {
    leak_checked("StreamReader over a long stream", || {
        let stream = reader_stream(case);
        let block = [Some(4096usize), Some(65_536), Some(262_144), None][case.block as usize % 4];
        let baseline = ByteArena::num_live_bytes();
        let mut input = &stream[..];
        let mut reader = hcobs::StreamReader::new();
        let judge = hcobs::StreamReader::chunk_judge(usize::MAX, None);
        let (mut first, mut second) = (0usize, 0usize);
        let mut records = 0u64;
        let mut empty_records = 0u64;
        loop {
            let r = reader.next_record_bytes(&mut input, &judge, block).map_err(|e| Fail::new("reader:io-error", e.to_string()))?;
            let Some((iovec, range)) = r else { break };
            records += 1;
            if iovec.total_size() == 0 {
                empty_records += 1;
            }
            let live = ByteArena::num_live_bytes().saturating_sub(baseline);
            if (range.end as usize) <= stream.len() / 2 {
                first = first.max(live);
            } else {
                second = second.max(live);
            }
        }
        let bound = 4 * MIB + 2 * block.unwrap_or(hcobs::DEFAULT_BLOCK_SIZE);
        let peak = first.max(second);
        if peak > bound {
            return Err(Fail::new(
                "footprint:reader-bound",
                format!("StreamReader over {} KiB ({records} records, {empty_records} empty, block {block:?}): {peak} live arena bytes at the peak, bound {bound}", case.kib),
            ));
        }
        if second > first + MIB {
            return Err(Fail::new(
                "footprint:reader-grows",
                format!("StreamReader over {} KiB ({records} records, block {block:?}): peak live bytes grew from {first} (first half) to {second} (second half)", case.kib),
            ));
        }
        Ok(Outcome::new(case.kib >= 8 * 1024)
            .label_if(empty_records * 2 > records, "mostly_empty_records")
            .label_if(case.weights[2] as u32 * 3 > case.weights.iter().map(|w| *w as u32).sum::<u32>(), "many_invalid_records")
            .label_if(case.weights[5] > 0, "multi_chunk_records"))
    })
}

fn reader_footprint_case(min_kib: u32, max_kib: u32) -> impl Strategy<Value = ReaderFootprintCase> {
    (
        min_kib..=max_kib,
        prop_oneof![
            // A long run of one single kind of record ...
            3 => (0usize..7).prop_map(|k| {
                let mut w = [0u8; 7];
                w[k] = 1;
                w
            }),
            // ... or only records that decode to nothing (empty, invalid, bare delimiters) ...
            2 => (1u8..9, 0u8..9, 0u8..9).prop_map(|(a, b, c)| [a, 0, b, 0, 0, 0, c]),
            // ... or one kind dominating ...
            2 => (0usize..7, any::<[u8; 7]>()).prop_map(|(k, mut w)| {
                for x in w.iter_mut() {
                    *x %= 3;
                }
                w[k] = 200;
                w
            }),
            // ... or an arbitrary mixture.
            2 => any::<[u8; 7]>(),
        ],
        any::<u32>(),
        0u8..4,
    )
        .prop_map(|(kib, weights, seed, block)| ReaderFootprintCase { kib, weights, seed, block })
}

fn footprint_case(min_kib: u32, max_kib: u32) -> impl Strategy<Value = StreamCase> {
    streaming::stream_case(min_kib, max_kib).prop_map(|mut c| {
        // The consumer keeps draining everything that is consumable.
        c.how = match c.how {
            DrainHow::AllSlices | DrainHow::Slices(_) => DrainHow::AllSlices,
            _ => DrainHow::AllBytes,
        };
        c.every = c.every.min(3);
        c
    })
}

pub fn run(ctx: &Ctx, rep: &mut Report) {
    let cases = ctx.share(ctx.tier.pick(16_000, 800_000));
    engine::drive(ctx, rep, "leak:iovec-histories", iovec_sm::history(Mix::Memory, 60), cases, check_history);
    let cases = ctx.share(ctx.tier.pick(4_000, 200_000));
    engine::drive(ctx, rep, "leak:iovec-general", iovec_sm::history(Mix::General, 80), cases, check_history);
    // Threads working on objects of their own, at the same time.
    let cases = ctx.share(ctx.tier.pick(160, 4_000));
    let concurrent = (2u8..10, prop_oneof![1000u16..6000, 10_000u16..30_000], any::<u16>()).prop_map(|(threads, rounds, size_mul)| ConcurrentCase { threads, rounds, size_mul });
    engine::drive(ctx, rep, "leak:concurrent-independent-objects", concurrent, cases, check_concurrent);
    // The same histories with every third operation, and every other drop, on another thread.
    let cases = ctx.share(ctx.tier.pick(3_000, 100_000));
    engine::drive(ctx, rep, "leak:iovec-thread-handoff", iovec_sm::history(Mix::Memory, 60), cases, |h: &History| iovec_sm::with_thread_handoff(|| check_history(h)));
    let cases = ctx.share(ctx.tier.pick(3_000, 150_000));
    engine::drive(ctx, rep, "leak:codec", codec::codec_case(false), cases, check_codec);
    let cases = ctx.share(ctx.tier.pick(300, 15_000));
    engine::drive(ctx, rep, "leak:codec-large", codec::codec_case(true), cases, check_codec);
    let cases = ctx.share(ctx.tier.pick(4_000, 200_000));
    engine::drive(ctx, rep, "leak:stream-reader", c06::case_strategy(), cases, check_reader);
    let cases = ctx.share(ctx.tier.pick(4_000, 200_000));
    engine::drive(ctx, rep, "leak:stream-chunker", c08::case_strategy(), cases, check_chunker);

    // Footprint: the bound must not depend on the stream length.
    let (lo, hi, n) = ctx.tier.pick((16 * 1024, 40 * 1024, 16), (32 * 1024, 512 * 1024, 128));
    let cases = ctx.share(n);
    let peak = std::cell::Cell::new(0usize);
    let chunks = std::cell::Cell::new(0usize);
    let total = std::cell::Cell::new(0u64);
    engine::drive(ctx, rep, "footprint", footprint_case(lo, hi), cases, |case: &StreamCase| {
        total.set(total.get() + case.kib as u64 * 1024);
        check_footprint_measured(case, &mut |p, c| {
            peak.set(peak.get().max(p));
            chunks.set(chunks.get().max(c));
        })
    });
    rep.sub_add("footprint", "bytes_streamed", total.get());
    rep.sub_set("footprint", "max_peak_live_bytes_per_codec_seen", json!(peak.get()));
    rep.sub_set("footprint", "max_live_chunks_seen", json!(chunks.get()));

    let (lo, hi, n) = ctx.tier.pick((8 * 1024, 24 * 1024, 24), (16 * 1024, 256 * 1024, 200));
    let cases = ctx.share(n);
    engine::drive(ctx, rep, "footprint:stream-reader", reader_footprint_case(lo, hi), cases, check_reader_footprint);
    rep.sub_set("footprint", "bound_per_codec_bytes", json!(4 * MIB));
}

fn replay(_ctx: &Ctx, group: &str, case: &Value) -> CaseResult {
    match group {
        "leak:codec" | "leak:codec-large" => check_codec(&parse_case::<CodecCase>(case)?),
        "leak:stream-reader" => check_reader(&parse_case::<c06::Case>(case)?),
        "leak:stream-chunker" => check_chunker(&parse_case::<c08::Case>(case)?),
        "footprint" => check_footprint(&parse_case::<StreamCase>(case)?),
        "footprint:stream-reader" => check_reader_footprint(&parse_case::<ReaderFootprintCase>(case)?),
        "leak:concurrent-independent-objects" => check_concurrent(&parse_case::<ConcurrentCase>(case)?),
        "leak:iovec-thread-handoff" => iovec_sm::with_thread_handoff(|| check_history(&parse_case::<History>(case)?)),
        _ => check_history(&parse_case::<History>(case)?),
    }
}

pub fn def() -> PropDef {
    PropDef {
        id: "C10",
        rule: "Single-threaded worker processes (the counters are process-wide). leak:* groups (leak:concurrent-independent-objects runs 2..9 threads at once, each creating and dropping thousands of arenas and iovecs of its own - nothing shared, nothing moved - and compares the counters after joining them all; leak:iovec-thread-handoff executes every third operation and every other drop on a fresh thread, one thread at a time: the objects are Send): a generated history (C05's OwningIovec / AnchoredSlice state machine with clones, takes, arena swaps, held anchors; C01's Encoder/Decoder feeding and draining plans; C06's StreamReader and C08's StreamChunker runs) is executed, every object is dropped in a generated order, and (num_live_chunks, num_live_bytes) must equal their values before the case. footprint:stream-reader: streams of 8..24 MiB (16..256 MiB in thorough) of delimited records (empty, one byte, invalid at the first byte, 300 B, 5000 B, 70000 B, extra delimiters; one kind dominating or an arbitrary mixture) read record by record through one StreamReader with block sizes 4 KiB / 64 KiB / 256 KiB / default, live bytes sampled after every record against 4 MiB + 2 blocks and first-half / second-half growth. footprint: streams of 16..40 MiB (32..512 MiB in thorough) of four shapes through Encoder, Decoder or an Encoder->Decoder pipeline, fed in phases of pieces of 1 B..1 MiB with all input methods, the consumer draining everything consumable after every call (or every 2nd / 3rd call, with the bound raised by what may be left unconsumed); live arena bytes are sampled after every call: the peak must stay below 4 MiB per codec and the peak over the second half of the stream must not exceed the peak over the first half by more than one chunk (1 MiB) plus what the calls between two drains can add (2 x every x largest piece) - a leak of one chunk per arena turnover fails on these lengths. Non-trivial: (leak) a history with a clone, a taken / swapped arena, or an anchor left behind a partially consumed slice; (footprint) stream >= 16 MiB. Distinct: hash of the serialised case.",
        assumptions: &["arena requests <= 1 MiB in the footprint runs", "the footprint bound is a constant with margin (probed peaks: ~2 MiB per codec), not a minimum"],
        exhaustive_note: None,
        shards: |_t: Tier| 16,
        run,
        replay,
    }
}
