//! C15 — SlidingDeque behaves like a double-ended queue with a contiguous view.
use std::collections::VecDeque;

use proptest::prelude::*;
use serde::{Deserialize, Serialize};
use serde_json::{json, Value};
use sliding_deque::traits::PushTruncateContainer;
use sliding_deque::SlidingDeque;
use smallvec::SmallVec;

use super::{parse_case, PropDef};
use crate::engine::{self, panics, CaseResult, Ctx, Fail, Outcome, Report, Tier};

#[derive(Clone, Copy, Debug, PartialEq, Eq, Hash, Serialize, Deserialize)]
pub enum Op {
    Push(u8),
    PopFront,
    PopBack,
    Advance(u16),
    Clear,
    Slide,
    SetFront(u8),
    SetBack(u8),
    SetIndex(u8, u8),
}

#[derive(Clone, Copy, Debug, PartialEq, Eq, Hash, Serialize, Deserialize)]
pub enum Backing {
    Vec,
    Small2,
    Small4,
    // Other item types (the container is generic): zero-sized, 8-byte, 24-byte, padded pair, 200-byte.
    VecUnit,
    SmallUnit4,
    VecU64,
    SmallU64x2,
    VecWide,
    SmallPair3,
    /// 200-byte items: bulkier than a cache line or two, where an implementation might treat items differently.
    VecBulky,
}

/// Item types the deques are instantiated with; values are derived from the case's bytes.
pub trait Elem: Copy + PartialEq + std::fmt::Debug + 'static {
    fn of(v: u8) -> Self;
}
impl Elem for u8 {
    fn of(v: u8) -> Self {
        v
    }
}
impl Elem for () {
    fn of(_: u8) -> Self {}
}
impl Elem for u64 {
    fn of(v: u8) -> Self {
        (v as u64).wrapping_mul(0x0101_0101_0101_0101) ^ 0x00FF_00FF_0000_0000
    }
}
impl Elem for [u8; 24] {
    fn of(v: u8) -> Self {
        let mut a = [v; 24];
        a[23] = !v;
        a
    }
}
impl Elem for [u8; 200] {
    fn of(v: u8) -> Self {
        let mut a = [v; 200];
        a[0] = !v;
        a[199] = v ^ 0x55;
        a
    }
}
impl Elem for (u32, u16) {
    fn of(v: u8) -> Self {
        ((v as u32) << 24 | v as u32, (v as u16) << 8 | 1)
    }
}

#[derive(Clone, Debug, Serialize, Deserialize)]
pub struct Case {
    pub backing: Backing,
    /// Initial contents handed to `From<Container>`.
    pub init: Vec<u8>,
    pub ops: Vec<Op>,
    /// Additional initial contents: this many elements `i % 251` (large deques without large case files).
    #[serde(default)]
    pub init_fill: u32,
}

struct Stats {
    pop_back_with_prefix: bool,
    spilled: bool,
}

fn op_name(op: &Op) -> &'static str {
    match op {
        Op::Push(_) => "push_back",
        Op::PopFront => "pop_front",
        Op::PopBack => "pop_back",
        Op::Advance(_) => "advance",
        Op::Clear => "clear",
        Op::Slide => "slide",
        Op::SetFront(_) => "front_mut",
        Op::SetBack(_) => "back_mut",
        Op::SetIndex(..) => "index_mut",
    }
}

/// Applies one operation to both; returns an error description on disagreement.
fn step<C, T>(
    deque: &mut SlidingDeque<C>,
    model: &mut VecDeque<T>,
    op: &Op,
    inline_cap: usize,
    stats: &mut Stats,
) -> Result<(), Fail>
where
    T: Elem,
    C: PushTruncateContainer<Item = T> + Clone + Default,
{
    let name = op_name(op);
    let (prefix_before, len_before) = deque.verif_rep();
    let r = panics::catch(|| -> Result<(), String> {
        match *op {
            Op::Push(v) => {
                deque.push_back(T::of(v));
                model.push_back(T::of(v));
            }
            Op::PopFront => {
                let got = deque.pop_front();
                let want = model.pop_front();
                if got != want {
                    return Err(format!("pop_front returned {got:?}, reference {want:?}"));
                }
            }
            Op::PopBack => {
                let got = deque.pop_back();
                let want = model.pop_back();
                if got != want {
                    return Err(format!("pop_back returned {got:?}, reference {want:?}"));
                }
            }
            Op::Advance(k) => {
                // The top of the u16 range stands for the top of the usize range (advance(usize::MAX)
                // is how one says "drop everything").
                let count = if k >= 65_500 { usize::MAX - (65_535 - k as usize) } else { k as usize };
                let got = deque.advance(count);
                let want = count.min(model.len());
                model.drain(..want);
                if got != want {
                    return Err(format!("advance({count}) returned {got}, reference {want}"));
                }
            }
            Op::Clear => {
                deque.clear();
                model.clear();
            }
            Op::Slide => deque.slide(),
            Op::SetFront(v) => {
                let got = deque.front_mut().map(|x| {
                    *x = T::of(v);
                });
                let want = model.front_mut().map(|x| {
                    *x = T::of(v);
                });
                if got != want {
                    return Err(format!("front_mut is_some {:?}, reference {:?}", got.is_some(), want.is_some()));
                }
            }
            Op::SetBack(v) => {
                let got = deque.back_mut().map(|x| {
                    *x = T::of(v);
                });
                let want = model.back_mut().map(|x| {
                    *x = T::of(v);
                });
                if got != want {
                    return Err(format!("back_mut is_some {:?}, reference {:?}", got.is_some(), want.is_some()));
                }
            }
            Op::SetIndex(i, v) => {
                let len = model.len();
                if len > 0 {
                    let i = (i as usize) % len;
                    deque[i] = T::of(v);
                    model[i] = T::of(v);
                }
            }
        }
        Ok(())
    });
    match r {
        Err(p) => return Err(Fail::new(format!("panic:{name}:{}", p.signature()), format!("{name} panicked: {}", p.describe()))),
        Ok(Err(msg)) => return Err(Fail::new(format!("return:{name}"), msg)),
        Ok(Ok(())) => {}
    }

    if matches!(op, Op::PopBack) && prefix_before > 0 {
        stats.pop_back_with_prefix = true;
    }
    let (prefix, clen) = deque.verif_rep();
    if inline_cap > 0 && len_before <= inline_cap && clen > inline_cap {
        stats.spilled = true;
    }

    // Observations after the step.
    let view: &[T] = deque;
    let want: Vec<T> = model.iter().copied().collect();
    if view != &want[..] {
        return Err(Fail::new(format!("view:{name}"), format!("after {name}: slice view {view:?}, reference {want:?}")));
    }
    if deque.len() != model.len() || deque.is_empty() != model.is_empty() {
        return Err(Fail::new(format!("len:{name}"), format!("after {name}: len {} / is_empty {}, reference {}", deque.len(), deque.is_empty(), model.len())));
    }
    let r = panics::catch(|| (deque.front().copied(), deque.back().copied()));
    match r {
        Err(p) => return Err(Fail::new(format!("panic:front/back-after-{name}:{}", p.signature()), p.describe())),
        Ok((f, b)) => {
            if f != model.front().copied() || b != model.back().copied() {
                return Err(Fail::new(format!("ends:{name}"), format!("after {name}: front/back {f:?}/{b:?}, reference {:?}/{:?}", model.front(), model.back())));
            }
        }
    }
    if prefix > clen / 2 {
        return Err(Fail::new(
            format!("rep:prefix>half:{name}"),
            format!("after {name}: {prefix} consumed elements still held in a backing container of length {clen}"),
        ));
    }
    if model.is_empty() && prefix != 0 {
        return Err(Fail::new(format!("rep:empty-dirty:{name}"), format!("after {name}: empty deque keeps a consumed prefix of {prefix}")));
    }
    Ok(())
}

fn run_typed<C, T>(case: &Case, inline_cap: usize) -> CaseResult
where
    T: Elem,
    C: PushTruncateContainer<Item = T> + Clone + Default + From<Vec<T>>,
{
    let mut init: Vec<T> = case.init.iter().map(|v| T::of(*v)).collect();
    init.extend((0..case.init_fill).map(|i| T::of((i % 251) as u8)));
    let container: C = init.clone().into();
    let mut deque: SlidingDeque<C> = container.into();
    let mut model: VecDeque<T> = init.into_iter().collect();
    let mut stats = Stats {
        pop_back_with_prefix: false,
        spilled: false,
    };
    // A second deque with a life of its own (a consumed prefix, a backing container that has been
    // longer): every few operations it becomes a copy of the first through `clone_from`.
    let mut spare: SlidingDeque<C> = SlidingDeque::new();
    for v in 0..6u8 {
        spare.push_back(T::of(v));
    }
    spare.advance(2);
    for (i, op) in case.ops.iter().enumerate() {
        step(&mut deque, &mut model, op, inline_cap, &mut stats).map_err(|f| Fail::new(f.sig, format!("op #{i} {op:?}: {}", f.msg)))?;
        if i % 4 == 3 {
            let r = panics::catch(|| {
                spare.clone_from(&deque);
                let same = &*spare == &*deque && spare.len() == model.len() && spare.front().copied() == model.front().copied() && spare.back().copied() == model.back().copied();
                // ... and goes its own way again.
                spare.push_back(T::of(i as u8));
                let popped = spare.pop_front();
                spare.advance(i % 3);
                (same, popped)
            });
            match r {
                Err(p) => return Err(Fail::new(format!("panic:clone_from:{}", p.signature()), format!("after op #{i}: clone_from onto a used deque panicked: {}", p.describe()))),
                Ok((false, _)) => return Err(Fail::new("clone_from", format!("after op #{i}: clone_from onto a used deque does not give a copy of the source"))),
                Ok((true, popped)) => {
                    let want = model.front().copied().or(Some(T::of(i as u8)));
                    if popped != want {
                        return Err(Fail::new("clone_from", format!("after op #{i}: the copy made by clone_from pops {popped:?}, expected {want:?}")));
                    }
                }
            }
        }
    }
    // A clone is an independent, equal deque.
    let copy = deque.clone();
    if &*copy != &*deque {
        return Err(Fail::new("clone", "clone differs from the original"));
    }
    Ok(Outcome::new(stats.pop_back_with_prefix || stats.spilled)
        .label_if(stats.pop_back_with_prefix, "pop_back_with_consumed_prefix")
        .label_if(stats.spilled, "inline_to_heap"))
}

pub fn check_case(case: &Case) -> CaseResult {
    match case.backing {
        Backing::Vec => run_typed::<Vec<u8>, u8>(case, 0),
        Backing::Small2 => run_typed::<SmallVec<[u8; 2]>, u8>(case, 2),
        Backing::Small4 => run_typed::<SmallVec<[u8; 4]>, u8>(case, 4),
        Backing::VecUnit => run_typed::<Vec<()>, ()>(case, 0),
        Backing::SmallUnit4 => run_typed::<SmallVec<[(); 4]>, ()>(case, 4),
        Backing::VecU64 => run_typed::<Vec<u64>, u64>(case, 0),
        Backing::SmallU64x2 => run_typed::<SmallVec<[u64; 2]>, u64>(case, 2),
        Backing::VecWide => run_typed::<Vec<[u8; 24]>, [u8; 24]>(case, 0),
        Backing::SmallPair3 => run_typed::<SmallVec<[(u32, u16); 3]>, (u32, u16)>(case, 3),
        Backing::VecBulky => run_typed::<Vec<[u8; 200]>, [u8; 200]>(case, 0),
    }
}

const ALPHABET: [Op; 10] = [
    Op::Push(0),
    Op::PopFront,
    Op::PopBack,
    Op::Advance(1),
    Op::Advance(2),
    Op::Advance(3),
    Op::Advance(1000),
    Op::Clear,
    Op::Slide,
    Op::SetBack(0xEE),
];

/// Depth-first enumeration of every operation sequence up to `depth`,
/// sharing prefixes.  Returns (nodes, nontrivial nodes) or the first failure.
fn dfs<C, T>(
    deque: &SlidingDeque<C>,
    model: &VecDeque<T>,
    path: &mut Vec<Op>,
    depth: usize,
    inline_cap: usize,
    nontrivial_so_far: bool,
    counts: &mut (u64, u64),
) -> Result<(), (Vec<Op>, Fail)>
where
    T: Elem,
    C: PushTruncateContainer<Item = T> + Clone + Default,
{
    if path.len() == depth {
        return Ok(());
    }
    for sym in ALPHABET.iter() {
        let op = match sym {
            Op::Push(_) => Op::Push(path.len() as u8 + 1),
            other => *other,
        };
        let mut d = deque.clone();
        let mut m = model.clone();
        let mut stats = Stats {
            pop_back_with_prefix: false,
            spilled: false,
        };
        path.push(op);
        if let Err(f) = step(&mut d, &mut m, &op, inline_cap, &mut stats) {
            return Err((path.clone(), f));
        }
        let nt = nontrivial_so_far || stats.pop_back_with_prefix || stats.spilled;
        counts.0 += 1;
        if nt {
            counts.1 += 1;
        }
        dfs(&d, &m, path, depth, inline_cap, nt, counts)?;
        path.pop();
    }
    Ok(())
}

fn exhaustive<C, T>(ctx: &Ctx, rep: &mut Report, backing: Backing, inline_cap: usize, depth: usize)
where
    T: Elem,
    C: PushTruncateContainer<Item = T> + Clone + Default + From<Vec<T>>,
{
    let group = format!("exhaustive-{backing:?}");
    let mut counts = (0u64, 0u64);
    // Shard on the first two operations.
    let mut index = 0u64;
    for a in ALPHABET.iter() {
        for b in ALPHABET.iter() {
            index += 1;
            if !ctx.owns(index) {
                continue;
            }
            let fix = |op: &Op, pos: usize| match op {
                Op::Push(_) => Op::Push(pos as u8 + 1),
                o => *o,
            };
            let prefix = vec![fix(a, 0), fix(b, 1)];
            let mut deque: SlidingDeque<C> = SlidingDeque::new();
            let mut model: VecDeque<T> = VecDeque::new();
            let mut stats = Stats {
                pop_back_with_prefix: false,
                spilled: false,
            };
            let mut failed = None;
            for (i, op) in prefix.iter().enumerate() {
                if let Err(f) = step(&mut deque, &mut model, op, inline_cap, &mut stats) {
                    failed = Some((prefix[..=i].to_vec(), f));
                    break;
                }
            }
            // The two-operation prefixes themselves (and the one-operation ones, once).
            counts.0 += 1;
            let mut path = prefix.clone();
            let result = match failed {
                Some(x) => Err(x),
                None => dfs(&deque, &model, &mut path, depth, inline_cap, stats.pop_back_with_prefix || stats.spilled, &mut counts),
            };
            if let Err((ops, fail)) = result {
                let case = Case {
                    backing,
                    init: vec![],
                    ops,
                    init_fill: 0,
                };
                // Confirm through the ordinary entry point, then report.
                let fail = match engine::guarded(&case, &check_case) {
                    Err(f) => f,
                    Ok(_) => fail,
                };
                rep.evaluations += counts.0;
                rep.add_failure(ctx, &group, &case, fail);
                return;
            }
        }
    }
    rep.add_enumerated(&group, counts.0, counts.1);
    rep.sub_add("exhaustive", &format!("sequences_{backing:?}"), counts.0);
    rep.sub_set("exhaustive", "max_depth", json!(depth));
    rep.sub_set("exhaustive", "alphabet", json!(format!("{ALPHABET:?}")));
    rep.sub_set("exhaustive", "exhaustive", json!(true));
}

fn op_strategy() -> impl Strategy<Value = Op> {
    prop_oneof![
        8 => any::<u8>().prop_map(Op::Push),
        3 => Just(Op::PopFront),
        3 => Just(Op::PopBack),
        3 => prop_oneof![6 => 0u16..4, 4 => 0u16..12, 3 => 0u16..300, 1 => 65_500u16..=65_535, 1 => Just(u16::MAX)].prop_map(Op::Advance),
        1 => Just(Op::Clear),
        1 => Just(Op::Slide),
        1 => any::<u8>().prop_map(Op::SetFront),
        1 => any::<u8>().prop_map(Op::SetBack),
        1 => (any::<u8>(), any::<u8>()).prop_map(|(i, v)| Op::SetIndex(i, v)),
    ]
}

fn any_backing() -> impl Strategy<Value = Backing> {
    prop_oneof![
        3 => Just(Backing::Vec),
        3 => Just(Backing::Small2),
        3 => Just(Backing::Small4),
        1 => Just(Backing::VecUnit),
        1 => Just(Backing::SmallUnit4),
        1 => Just(Backing::VecU64),
        1 => Just(Backing::SmallU64x2),
        1 => Just(Backing::VecWide),
        1 => Just(Backing::VecBulky),
        1 => Just(Backing::SmallPair3),
    ]
}

fn case_strategy(max_ops: usize) -> impl Strategy<Value = Case> {
    (
        any_backing(),
        prop_oneof![3 => Just(vec![]), 1 => proptest::collection::vec(any::<u8>(), 0..9)],
        proptest::collection::vec(op_strategy(), 0..max_ops),
    )
        .prop_map(|(backing, init, ops)| Case { backing, init, ops, init_fill: 0 })
}

/// Large deques (tens to hundreds of KiB of elements): consume around half, then work at both ends.
fn large_case_strategy() -> impl Strategy<Value = Case> {
    (
        any_backing(),
        prop_oneof![Just(1u32 << 16), Just(1 << 17), Just((1 << 17) + 2), Just(140_000), Just(1 << 18), 60_000u32..300_000, 1000u32..70_000],
        -3i32..=3,
        proptest::collection::vec(
            prop_oneof![
                4 => Just(Op::PopBack),
                2 => Just(Op::PopFront),
                2 => any::<u8>().prop_map(Op::Push),
                1 => (0u16..4).prop_map(Op::Advance),
                1 => any::<u8>().prop_map(Op::SetBack),
            ],
            1..12,
        ),
    )
        .prop_map(|(backing, n, d, tail)| {
            let n = n + (n % 2); // even, so that "exactly half consumed" exists
            let half = (n as i64 / 2 + d as i64).max(0) as u32;
            // advance() takes a u16 here: consume in steps.
            let mut ops = vec![];
            let mut left = half;
            while left > 0 {
                let k = left.min(60_000);
                ops.push(Op::Advance(k as u16));
                left -= k;
            }
            ops.extend(tail);
            Case {
                backing,
                init: vec![],
                ops,
                init_fill: n,
            }
        })
}

pub fn run(ctx: &Ctx, rep: &mut Report) {
    let depth = ctx.tier.pick(8, 9);
    exhaustive::<Vec<u8>, u8>(ctx, rep, Backing::Vec, 0, depth);
    exhaustive::<SmallVec<[u8; 2]>, u8>(ctx, rep, Backing::Small2, 2, depth);
    exhaustive::<SmallVec<[u8; 4]>, u8>(ctx, rep, Backing::Small4, 4, depth);
    // Other item types, one level less deep: zero-sized, and wider than a byte.
    exhaustive::<Vec<()>, ()>(ctx, rep, Backing::VecUnit, 0, depth - 1);
    exhaustive::<SmallVec<[u64; 2]>, u64>(ctx, rep, Backing::SmallU64x2, 2, depth - 1);
    exhaustive::<SmallVec<[(u32, u16); 3]>, (u32, u16)>(ctx, rep, Backing::SmallPair3, 3, depth - 1);
    rep.add_sample(
        "exhaustive-Vec",
        json!({"note": "every sequence over the alphabet up to max_depth, e.g.", "ops": ["Push(1)", "Push(2)", "Push(3)", "Push(4)", "Advance(2)", "PopBack"]}),
    );
    let cases = ctx.share(ctx.tier.pick(80_000, 8_000_000));
    engine::drive(ctx, rep, "random", case_strategy(200), cases, check_case);
    let cases = ctx.share(ctx.tier.pick(2_400, 200_000));
    engine::drive(ctx, rep, "large", large_case_strategy(), cases, check_case);
}

fn replay(_ctx: &Ctx, _group: &str, case: &Value) -> CaseResult {
    check_case(&parse_case::<Case>(case)?)
}

pub fn def() -> PropDef {
    PropDef {
        id: "C15",
        rule: "Cases are operation sequences on SlidingDeque over Vec, SmallVec<[u8;2]> and SmallVec<[u8;4]> (and, less often and one level less deep in part 1, over item types other than a byte: the zero-sized (), u64, [u8;24] and the padded pair (u32,u16), in Vec and SmallVec backings), compared step by step with std::collections::VecDeque (return values, contiguous view, len, is_empty, front, back) plus the space bound read through the verif_rep hook. Part 1 enumerates every sequence over a 10-symbol alphabet up to max_depth by depth-first search with shared prefixes; part 2 draws random sequences of up to 200 operations (optionally starting from a pre-filled container) with proptest; part 3 (large) starts from 1000..300000 elements (sizes around 2^16, 2^17, 2^18), consumes half of them +-3, then pops, pushes and advances at both ends. In the random groups, after every fourth operation a second deque with a consumed prefix of its own becomes a copy of the first through clone_from and must equal it. Non-trivial: the sequence contains a pop_back executed while the consumed prefix is non-zero, or an inline-to-heap transition of the small-vector backing. Distinct: by enumeration for part 1, by hash of the serialised case for part 2.",
        assumptions: &[
            "harness built with debug assertions on, so the crate's own check_rep assertions are active",
            "VecDeque is the reference double-ended queue",
        ],
        exhaustive_note: Some("exhaustive-* groups: complete enumeration of all sequences up to max_depth over the stated alphabet (see sub_reports.exhaustive)"),
        shards: |t: Tier| t.pick(8, 16),
        run,
        replay,
    }
}
