//! C13 — AtomicBaseTime snapshots are never torn and never go backwards, on any schedule.
use proptest::prelude::*;
use serde::{Deserialize, Serialize};
use serde_json::{json, Value};

use super::abt::{self, Event, Op, OpResult, Outcome as Run, Plan, Target};
use super::c14::{voucher_bits, VOUCH};
use super::{parse_case, PropDef};
use crate::engine::{self, CaseResult, Ctx, Fail, Outcome, Report, Tier};

#[derive(Clone, Debug, PartialEq, Eq, Hash, Serialize, Deserialize)]
pub struct Case {
    pub programs: Vec<Vec<Op>>,
    /// (thread choice, extra steps to run uninterrupted) segments.
    pub schedule: Vec<(u8, u8)>,
    /// Reads-from choices: 0 = latest message, k = k-th older one still allowed.
    pub reads: Vec<u8>,
}

/// Facts extracted from a run.
struct Facts {
    /// Base time of each commit store, by index in the sequence word's modification order (index 0 = initial).
    commit_base: Vec<u64>,
    commit_store_positions: Vec<usize>,
}

fn facts(case: &Case, run: &Run) -> Result<Facts, Fail> {
    let mut commit_base = vec![0u64];
    let mut commit_store_positions = vec![0usize];
    if let Some(seq) = run.seq_addr {
        for (pos, e) in run.trace.iter().enumerate() {
            if let Event::Store { tid, op, addr, idx, .. } = e {
                if *addr == seq {
                    let t = match case.programs[*tid][*op] {
                        Op::Update(t) | Op::TryUpdate(t) | Op::UpdateUnwinding(t) => t,
                        Op::UpdateBad(t) | Op::TryUpdateBad(t) => {
                            return Err(Fail::new("commit-by-invalid-update", format!("thread {tid} committed base time {t} with a voucher that does not match it")))
                        }
                        other => return Err(Fail::new("commit-by-non-update", format!("thread {tid} stored to the sequence word during {other:?}"))),
                    };
                    if *idx != commit_base.len() {
                        return Err(Fail::new("model:store-order", "sequence stores out of order in the model".to_string()));
                    }
                    commit_base.push(t);
                    commit_store_positions.push(pos);
                }
            }
        }
    }
    Ok(Facts {
        commit_base,
        commit_store_positions,
    })
}

pub fn check_run(case: &Case, run: &Run) -> Result<(bool, bool), Fail> {
    if run.livelock {
        return Err(Fail::new("livelock", format!("a thread took more than {} hooked steps: an operation that never completes", abt::STEP_LIMIT)));
    }
    if run.stuck {
        return Err(Fail::new("deadlock", "no thread could make progress (a thread blocked forever)".to_string()));
    }
    let f = facts(case, run)?;
    let mut valid: Vec<(u64, u64)> = vec![(0, voucher_bits(VOUCH.vouch(0)))];
    for p in &case.programs {
        for op in p {
            if let Op::Update(t) | Op::TryUpdate(t) | Op::UpdateUnwinding(t) = op {
                valid.push((*t, voucher_bits(VOUCH.vouch(*t))));
            }
            // (the pairs of UpdateBad / TryUpdateBad are never valid)
        }
    }

    // Replay the writers' critical sections in order through the monotone filter.  A
    // writer that panics inside its critical section (a rejected pair) poisons the lock;
    // the next critical section is then only the recovery (`lock`, drop the guard,
    // `clear_poison`, `lock` again; `try_update` clears the poison and gives up).
    let mut current = 0u64;
    let mut expected_commits: Vec<u64> = vec![];
    let mut expected_try: std::collections::HashMap<(usize, usize), bool> = Default::default();
    let mut expected_panic: std::collections::HashSet<(usize, usize)> = Default::default();
    let mut poisoned = false;
    // (thread, operation, recovery section)
    let mut section: Option<(usize, usize, bool)> = None;
    let mut failed_try: Vec<(usize, usize)> = vec![];
    let mut close = |section: &mut Option<(usize, usize, bool)>, current: &mut u64, poisoned: &mut bool| -> Result<(), Fail> {
        let Some((tid, op, recovery)) = section.take() else { return Ok(()) };
        let program_op = case.programs[tid][op];
        if recovery {
            if matches!(program_op, Op::TryUpdate(_) | Op::TryUpdateBad(_)) {
                expected_try.insert((tid, op), false);
            }
            return Ok(());
        }
        if matches!(run.results[tid].get(op), Some(OpResult::Panicked(_))) {
            *poisoned = true;
        }
        match program_op {
            Op::Update(t) | Op::TryUpdate(t) | Op::UpdateUnwinding(t) => {
                let accepted = t >= *current;
                if accepted {
                    *current = t;
                    expected_commits.push(t);
                }
                if matches!(program_op, Op::TryUpdate(_)) {
                    expected_try.insert((tid, op), accepted);
                }
            }
            Op::UpdateBad(t) | Op::TryUpdateBad(t) => {
                // Older: skipped like any other update; otherwise rejected by the crate's assertion.
                if t >= *current {
                    expected_panic.insert((tid, op));
                } else if matches!(program_op, Op::TryUpdateBad(_)) {
                    expected_try.insert((tid, op), false);
                }
            }
            other => return Err(Fail::new("lock-by-reader", format!("thread {tid} took the writer lock during {other:?}"))),
        }
        Ok(())
    };
    for e in &run.trace {
        match e {
            Event::Lock { tid, op } | Event::TryLock { tid, op, ok: true } => {
                close(&mut section, &mut current, &mut poisoned)?;
                if matches!(case.programs[*tid][*op], Op::Snapshot | Op::Sequence) {
                    return Err(Fail::new("lock-by-reader", format!("thread {tid} took the writer lock during {:?}", case.programs[*tid][*op])));
                }
                section = Some((*tid, *op, poisoned));
                poisoned = false;
            }
            Event::Unlock { .. } => close(&mut section, &mut current, &mut poisoned)?,
            Event::TryLock { tid, op, ok: false } => failed_try.push((*tid, *op)),
            _ => {}
        }
    }
    close(&mut section, &mut current, &mut poisoned)?;
    drop(close);
    for key in failed_try {
        expected_try.insert(key, false);
    }
    if f.commit_base[1..] != expected_commits[..] {
        return Err(Fail::new(
            "commits",
            format!("commit stores carry base times {:?}; the updates in lock order through the monotone filter give {expected_commits:?}", &f.commit_base[1..]),
        ));
    }
    let want_final = (current, voucher_bits(VOUCH.vouch(current)));
    if run.final_pair != want_final {
        return Err(Fail::new("final-pair", format!("after joining all threads the pair is {:?}, expected {want_final:?}", run.final_pair)));
    }
    if run.final_read_unbounded {
        return Err(Fail::new("livelock", "a snapshot taken after every thread was joined (no writer running) did not complete within 2000 atomic loads".to_string()));
    }
    if run.bystander_pair != (0, voucher_bits(VOUCH.vouch(0))) || run.bystander_sequence != 0 {
        return Err(Fail::new(
            "instances-share-state",
            format!("a new AtomicBaseTime created after the run reads {:?} with sequence {} instead of the epoch pair", run.bystander_pair, run.bystander_sequence),
        ));
    }
    if run.final_sequence != expected_commits.len() as u64 {
        return Err(Fail::new("final-sequence", format!("final sequence number is {}, {} updates were accepted", run.final_sequence, expected_commits.len())));
    }

    // Blocking updates with a valid pair that returned: (position of the return in the trace, thread, base time).
    // "A snapshot is at least as recent as every update that completed before it began" speaks of the
    // calls, accepted or not: an update that returns without committing has found the base time at or above its own.
    let mut completed_updates: Vec<(usize, usize, u64)> = vec![];
    for (tid, (prog, results)) in case.programs.iter().zip(run.results.iter()).enumerate() {
        for (i, (op, r)) in prog.iter().zip(results.iter()).enumerate() {
            if let (Op::Update(t) | Op::UpdateUnwinding(t), OpResult::Updated) = (op, r) {
                if let Some(e) = run.trace.iter().position(|e| matches!(e, Event::OpEnd { tid: t2, op: o } if *t2 == tid && *o == i)) {
                    completed_updates.push((e, tid, *t));
                }
            }
        }
    }
    let mut snapshot_during_commit = false;
    let mut any_snapshot = false;
    for (tid, (prog, results)) in case.programs.iter().zip(run.results.iter()).enumerate() {
        let mut last_seen = 0u64;
        for (i, (op, r)) in prog.iter().zip(results.iter()).enumerate() {
            // Where this operation began, and what the thread knew of the sequence word then.
            let begin = run.trace.iter().position(|e| matches!(e, Event::OpBegin { tid: t, op: o, .. } if *t == tid && *o == i));
            let end = run.trace.iter().position(|e| matches!(e, Event::OpEnd { tid: t, op: o } if *t == tid && *o == i));
            match (op, r) {
                (Op::UpdateBad(_) | Op::TryUpdateBad(_), OpResult::Panicked(msg)) if expected_panic.contains(&(tid, i)) && msg.contains("BASE_TIME_CHECK") => {}
                (_, OpResult::Panicked(msg)) => return Err(Fail::new("panic", format!("thread {tid} panicked in {op:?}: {msg}"))),
                // (an implementation that refused the pair without panicking would be as good: what
                // matters is that it is never committed, which the commit replay above decides)
                (Op::UpdateBad(_), OpResult::Updated) => {}
                (Op::TryUpdateBad(t), OpResult::TryUpdated(ok)) => {
                    if *ok {
                        return Err(Fail::new("try_update:return", format!("thread {tid} try_update({t}) with a mismatched voucher returned true")));
                    }
                }
                (Op::Snapshot, OpResult::Snapshot { base, voucher }) => {
                    any_snapshot = true;
                    if !valid.contains(&(*base, *voucher)) {
                        return Err(Fail::new(
                            "torn-snapshot",
                            format!("thread {tid} snapshot returned ({base}, {voucher:#x}), which is neither the epoch pair nor a pair passed to an update"),
                        ));
                    }
                    if *base < last_seen {
                        return Err(Fail::new("backwards", format!("thread {tid}: snapshot base time went from {last_seen} back to {base}")));
                    }
                    last_seen = *base;
                    if let Some(b) = begin {
                        // The thread's own completed updates happen-before its snapshot; other threads' do in
                        // schedule order when no stale read was taken anywhere in the execution.
                        for (e, utid, t) in &completed_updates {
                            if *e < b && (*utid == tid || run.stale_reads == 0) && *base < *t {
                                return Err(Fail::new(
                                    "stale:update-returned-before",
                                    format!(
                                        "thread {tid} snapshot returned base time {base} although update({t}) by thread {utid} had returned before it began{}",
                                        if *utid == tid { " (its own update)" } else { " (no stale read in this execution)" }
                                    ),
                                ));
                            }
                        }
                    }
                    if let Some(Event::OpBegin { seq_view, seq_latest, .. }) = begin.map(|b| &run.trace[b]) {
                        // Everything that happens-before the snapshot is in the thread's view of the sequence word.
                        let known = f.commit_base[*seq_view];
                        if *base < known {
                            return Err(Fail::new(
                                "stale:happens-before",
                                format!("thread {tid} snapshot returned base time {base} although an update to {known} happens-before it"),
                            ));
                        }
                        // With no stale read anywhere, schedule order is enough.
                        if run.stale_reads == 0 {
                            let latest = f.commit_base[*seq_latest];
                            if *base < latest {
                                return Err(Fail::new(
                                    "stale:completed-before",
                                    format!("thread {tid} snapshot returned base time {base} although an update to {latest} completed before it began (no stale read in this execution)"),
                                ));
                            }
                        }
                    }
                    if let (Some(b), Some(e)) = (begin, end) {
                        if f.commit_store_positions.iter().skip(1).any(|p| *p > b && *p < e) {
                            snapshot_during_commit = true;
                        }
                    }
                }
                (Op::Update(t) | Op::UpdateUnwinding(t), OpResult::Updated) => {
                    // An accepted own update happens-before this thread's later snapshots.
                    let accepted = run
                        .trace
                        .iter()
                        .any(|e| matches!(e, Event::Store { tid: t2, op: o2, addr, .. } if *t2 == tid && *o2 == i && Some(*addr) == run.seq_addr));
                    if accepted {
                        last_seen = last_seen.max(*t);
                    }
                }
                (Op::TryUpdate(t), OpResult::TryUpdated(ok)) => {
                    let want = expected_try.get(&(tid, i)).copied();
                    if want != Some(*ok) {
                        return Err(Fail::new(
                            "try_update:return",
                            format!("thread {tid} try_update({t}) returned {ok}; lock acquired and not older than the current base time: {want:?}"),
                        ));
                    }
                    if *ok {
                        last_seen = last_seen.max(*t);
                    }
                }
                (Op::Sequence, OpResult::Sequence(n)) => {
                    if *n as usize >= f.commit_base.len() {
                        return Err(Fail::new("sequence", format!("sequence() returned {n} with only {} commits", f.commit_base.len() - 1)));
                    }
                }
                (op, r) => return Err(Fail::new("harness:result-shape", format!("{op:?} produced {r:?}"))),
            }
        }
    }
    Ok((any_snapshot && (snapshot_during_commit || run.stale_reads > 0), snapshot_during_commit))
}

/// Base times at and above this value are "the wall clock now, give or take": `NOW_BASE + k`
/// stands for (current time in ms) - 100 000 + k, resolved once per execution, so that relations
/// between the arguments and the machine's own clock are reachable (k < 200 000: from 100 s
/// behind to 100 s ahead).  All other values are literal.
pub const NOW_BASE: u64 = 1 << 62;

fn resolve_now(case: &Case) -> Case {
    let now_ms = std::time::SystemTime::now().duration_since(std::time::UNIX_EPOCH).map(|d| d.as_millis() as u64).unwrap_or(1_700_000_000_000);
    let map = |t: u64| if (NOW_BASE..NOW_BASE + 200_000).contains(&t) { now_ms - 100_000 + (t - NOW_BASE) } else { t };
    let mut c = case.clone();
    for p in c.programs.iter_mut() {
        for op in p.iter_mut() {
            *op = match *op {
                Op::Update(t) => Op::Update(map(t)),
                Op::TryUpdate(t) => Op::TryUpdate(map(t)),
                Op::UpdateUnwinding(t) => Op::UpdateUnwinding(map(t)),
                other => other,
            };
        }
    }
    c
}

pub fn check_case(case: &Case) -> CaseResult {
    let resolved = resolve_now(case);
    let case = &resolved;
    let run = abt::run(
        Plan {
            programs: case.programs.clone(),
            schedule: case.schedule.clone(),
            reads: case.reads.clone(),
            budgets: vec![],
            solo: None,
        },
        Target::Fresh,
    );
    let (nontrivial, during) = check_run(case, &run)?;
    let writers = case.programs.iter().filter(|p| p.iter().any(|o| matches!(o, Op::Update(_) | Op::TryUpdate(_)))).count();
    let rejected = run.results.iter().flatten().filter(|r| matches!(r, OpResult::Panicked(_))).count();
    Ok(Outcome::new(nontrivial)
        .label_if(during, "commit_store_during_a_snapshot")
        .label_if(run.stale_reads > 0, "stale_read_taken")
        .label_if(writers >= 2, "concurrent_writers")
        .label_if(rejected > 0, "invalid_update_rejected")
        .label_if(run.try_lock_calls.iter().sum::<usize>() > 0, "try_update")
        .label_if(run.loads.iter().any(|l| *l > 8), "reader_retry_or_long_thread"))
}

/// Base times whose valid voucher is all zeroes, one, all ones, ... (see c14::remarkable_bases).
fn remarkable() -> impl Strategy<Value = u64> {
    (0usize..8).prop_map(|k| {
        let t = super::c14::remarkable_bases();
        t.get(k % t.len().max(1)).copied().unwrap_or(3)
    })
}

/// Base times around the machine's own clock (see [`NOW_BASE`]): within a few seconds of it, on both sides.
fn near_now() -> impl Strategy<Value = u64> {
    prop_oneof![3 => 95_000u64..105_000, 1 => 40_000u64..160_000, 1 => 0u64..200_000].prop_map(|k| NOW_BASE + k)
}

fn op() -> impl Strategy<Value = Op> {
    prop_oneof![
        8 => Just(Op::Snapshot),
        6 => prop_oneof![12 => 1u64..7, 1 => Just(0u64), 1 => Just(u64::MAX), 1 => Just(u64::MAX - 1), 2 => remarkable(), 3 => near_now()].prop_map(Op::Update),
        4 => prop_oneof![12 => 1u64..7, 1 => Just(0u64), 1 => Just(u64::MAX), 1 => remarkable()].prop_map(Op::TryUpdate),
        2 => Just(Op::Sequence),
        // Rejected updates (the writer panics while it holds the lock, which poisons it).
        1 => (1u64..7).prop_map(Op::UpdateUnwinding),
        1 => (1u64..7).prop_map(Op::UpdateBad),
        1 => (1u64..7).prop_map(Op::TryUpdateBad),
    ]
}

fn case_strategy(max_threads: usize, max_ops: usize) -> impl Strategy<Value = Case> {
    (
        proptest::collection::vec(proptest::collection::vec(op(), 1..=max_ops), 2..=max_threads),
        proptest::collection::vec((any::<u8>(), prop_oneof![3 => 0u8..4, 2 => 0u8..16, 1 => 0u8..40]), 0..28),
        proptest::collection::vec(prop_oneof![1 => Just(0u8), 1 => 1u8..4], 0..48),
    )
        .prop_map(|(programs, schedule, reads)| Case { programs, schedule, reads })
}

/// Writer lapping a reader: one reader, one or two writers doing several updates, long writer runs.
fn lapping_strategy() -> impl Strategy<Value = Case> {
    (
        proptest::collection::vec((1u64..7).prop_map(Op::Update), 2..5),
        proptest::collection::vec(Just(Op::Snapshot), 1..3),
        proptest::option::of(proptest::collection::vec(prop_oneof![(1u64..7).prop_map(Op::Update), (1u64..7).prop_map(Op::TryUpdate)], 1..3)),
        proptest::collection::vec((any::<u8>(), prop_oneof![0u8..3, 5u8..30]), 0..20),
        proptest::collection::vec(prop_oneof![1 => Just(0u8), 1 => 1u8..4], 0..40),
    )
        .prop_map(|(w, r, w2, schedule, reads)| {
            let mut programs = vec![r, w];
            if let Some(w2) = w2 {
                programs.push(w2);
            }
            Case { programs, schedule, reads }
        })
}

/// Every schedule with at most `preemptions` preemptions, latest-only reads, for a few fixed programs.
fn bounded_preemption_cases(preemptions: usize) -> Vec<Case> {
    let programs: Vec<Vec<Vec<Op>>> = vec![
        vec![vec![Op::Snapshot], vec![Op::Update(3), Op::Update(5)]],
        vec![vec![Op::Snapshot, Op::Snapshot], vec![Op::Update(3), Op::Update(2), Op::Update(5)]],
        vec![vec![Op::Snapshot], vec![Op::Update(4)], vec![Op::TryUpdate(6)]],
        vec![vec![Op::TryUpdate(2), Op::Snapshot], vec![Op::Update(3), Op::Snapshot]],
        vec![vec![Op::UpdateBad(4), Op::Update(3), Op::Snapshot], vec![Op::Update(2), Op::TryUpdate(5), Op::Snapshot]],
        // Two blocking writers, one of them between two of the other's base times, then its own snapshot.
        vec![vec![Op::Update(2), Op::Update(5)], vec![Op::Update(3), Op::Snapshot]],
    ];
    let mut out = vec![];
    for p in programs {
        let n = p.len() as u8;
        // A schedule is: start thread, then up to `preemptions` (run length, next thread) switches.
        let lens = [0u8, 1, 2, 3, 4, 5, 6, 8, 10, 13];
        fn rec(out: &mut Vec<Vec<(u8, u8)>>, cur: Vec<(u8, u8)>, left: usize, n: u8, lens: &[u8]) {
            out.push(cur.clone());
            if left == 0 {
                return;
            }
            for t in 0..n {
                for l in lens {
                    let mut next = cur.clone();
                    // Thread choice is mapped over the runnable set: spread over 0..256.
                    next.push((((t as u16 * 256 + 128) / n as u16) as u8, *l));
                    rec(out, next, left - 1, n, lens);
                }
            }
        }
        let mut schedules = vec![];
        rec(&mut schedules, vec![], preemptions + 1, n, &lens);
        for s in schedules {
            out.push(Case {
                programs: p.clone(),
                schedule: s,
                reads: vec![],
            });
        }
    }
    out
}

pub fn run(ctx: &Ctx, rep: &mut Report) {
    let pre = ctx.tier.pick(2, 3);
    engine::enumerate(ctx, rep, "bounded-preemptions", bounded_preemption_cases(pre).into_iter(), check_case);
    rep.sub_set("bounded-preemptions", "max_preemptions", json!(pre));
    rep.sub_set("bounded-preemptions", "what", json!("six fixed programs x every schedule with up to max_preemptions switch points (run lengths from {0,1,2,3,4,5,6,8,10,13}), latest-only reads"));
    rep.sub_set("bounded-preemptions", "exhaustive", json!(true));
    let cases = ctx.share(ctx.tier.pick(24_000, 2_400_000));
    engine::drive(ctx, rep, "random", case_strategy(3, 3), cases, check_case);
    let cases = ctx.share(ctx.tier.pick(12_000, 1_200_000));
    engine::drive(ctx, rep, "writer-laps-reader", lapping_strategy(), cases, check_case);
    if ctx.tier == Tier::Thorough {
        let cases = ctx.share(800_000);
        engine::drive(ctx, rep, "random-4x4", case_strategy(4, 4), cases, check_case);
    }
}

fn replay(_ctx: &Ctx, _group: &str, case: &Value) -> CaseResult {
    check_case(&parse_case::<Case>(case)?)
}

pub fn def() -> PropDef {
    PropDef {
        id: "C13",
        rule: "A case is (2..3 thread programs of 1..3 operations from snapshot / update(t) / try_update(t) / sequence with t from a small non-monotone set (plus 0, u64::MAX, base times within 100 s of the machine's own clock on either side - resolved when the case runs - and the base times whose valid voucher is all zeroes / one / all ones / the top bit only), and (one operation in eleven) update / try_update with a voucher that does not match the base time, which the crate rejects by panicking inside the critical section - the lock is then poisoned and the next writer recovers; and a valid update made from a destructor while the thread unwinds from an unrelated panic, which is an update like any other; a schedule: a list of (thread choice, uninterrupted run length) segments; a list of reads-from choices). Each logical thread is an OS thread that only runs while it holds the harness's baton, handed over at every hooked atomic load/store and lock/try_lock/unlock (vouched_time verif_sync hook), so the generated schedule fully determines the interleaving; atomic operations execute against a view-based release/acquire memory model owned by the harness: a load may read any message at or above the thread's view of that location (the generated choice picks which), Acquire loads join the message's released view, Relaxed operations transfer nothing, lock/unlock are acquire/release - so the stale reads a weakened ordering would permit are generated even though the host is x86. Oracles: no panic (the crate's internal voucher check is its own tearing detector); every snapshot pair is the epoch pair or a pair passed to some update; per-thread snapshot base times never decrease (own accepted updates included); a snapshot's base time is >= that of every commit in the thread's view of the sequence word when it began (happens-before), and, in executions without any stale read, >= that of every commit completed before it began; a snapshot is also >= the base time of every blocking update call with a valid pair that had returned before it began, accepted or not (the thread's own always; another thread's when the execution took no stale read); replaying the critical sections in order through the monotone filter (a rejected pair changes nothing; the section after a panic is the poison recovery) predicts exactly the commit stores, every try_update return value, and the final pair and sequence number read after joining. writer-laps-reader biases towards long writer runs between a reader's loads; bounded-preemptions enumerates every schedule with <= 2 (3) preemptions for six fixed programs. Non-trivial: a case with a snapshot during which a commit store occurred, or in which a non-latest read was taken. Distinct: hash of the serialised case / by enumeration.",
        assumptions: &[
            "the memory model is the promise-free release/acquire fragment: every execution it produces is allowed by the C++20/Rust model; load-buffering behaviours that need promises are not generated; SeqCst, if introduced, is executed as 'read latest + full view transfer'",
            "stores are appended at the end of the modification order (writers are serialised by the lock)",
            "bounded threads (<= 3, 4 in thorough) and operations (<= 3, 4 in thorough)",
            "hook: vouched_time/verif-hooks (AtomicU64 / Mutex stand-ins)",
        ],
        exhaustive_note: Some("bounded-preemptions: complete enumeration of schedules up to the preemption bound for the stated programs"),
        shards: |t: Tier| t.pick(8, 16),
        run,
        replay,
    }
}
