//! C03 — OwningIovec is a faithful FIFO byte pipe.
use serde_json::Value;

use super::iovec_sm::{self, History, Mix, Profile};
use super::{parse_case, PropDef};
use crate::engine::{self, CaseResult, Ctx, Outcome, Report, Tier};

const PROFILE: Profile = Profile {
    check_pipe: true,
    check_mem: false,
    check_leak: false,
};

pub fn check_case(h: &History) -> CaseResult {
    let st = iovec_sm::run_history(h, PROFILE)?;
    let nontrivial = st.merges > 0 && st.partial_byte_consumptions > 0 && (st.chunk_creations >= 2 || st.anchored_pushes > 0);
    Ok(Outcome::new(nontrivial)
        .label_if(st.merges > 0, "merge")
        .label_if(st.partial_byte_consumptions > 0, "partial_byte_consumption")
        .label_if(st.chunk_creations >= 2, "arena_regrowth_or_second_chunk")
        .label_if(st.anchored_pushes > 0, "anchored_push")
        .label_if(st.max_pending > 0, "placeholder")
        .label_if(st.takes > 0, "take")
        .label_if(st.clones > 0, "clone")
        .label_if(st.taken_arenas > 0, "arena_taken_or_swapped")
        .label_if(st.bytes_appended > 60_000, ">60KB_appended"))
}

pub fn run(ctx: &Ctx, rep: &mut Report) {
    let cases = ctx.share(ctx.tier.pick(90_000, 1_200_000));
    engine::drive(ctx, rep, "histories", iovec_sm::history(Mix::General, 60), cases, check_case);
    let cases = ctx.share(ctx.tier.pick(9_000, 100_000));
    engine::drive(ctx, rep, "long-histories", iovec_sm::history(Mix::General, 200), cases, check_case);
    let cases = ctx.share(ctx.tier.pick(4_000, 100_000));
    {
        let _ballast = iovec_sm::Ballast::new(iovec_sm::BALLAST_MIB);
        engine::drive(ctx, rep, "histories-with-ballast", iovec_sm::history(Mix::General, 60), cases, check_case);
    }
}

fn replay(_ctx: &Ctx, group: &str, case: &Value) -> CaseResult {
    if group.ends_with("with-ballast") {
        return iovec_sm::check_with_ballast(&parse_case::<History>(case)?, check_case);
    }
    check_case(&parse_case::<History>(case)?)
}

pub fn def() -> PropDef {
    PropDef {
        id: "C03",
        rule: "A case is a history of up to 60 (200 in long-histories) operations with generated arguments over up to four OwningIovec slots sharing a pool of caller-owned bytes: push_borrowed / push_copy / push (sizes around 1..8, 64, 256, 4096, 8192, 70000, 0), extend, new_from_slices / collect, register_patch (0..4 bytes, sometimes up to 4200), fill_chunk (use up the current arena chunk until 0..4200 bytes remain), backfill of any outstanding placeholder, clear, take, clone (only with no placeholder pending), drop, arena flush / ensure_capacity / take / swap between slots / new_from_arena, read_n + push_borrowed + push_anchor (optionally holding back a suffix), held AnchoredSlice operations, consume(k), advance_slices(n), pop_front (only with a non-empty stable prefix), Read::read. A shadow pipe model (bytes appended since the last clear, consumed count, pending placeholders) is kept per slot; after every operation, for every live slot: total_size = appended - consumed, consumable bytes equal the model at the same offsets, every consuming call returned exactly what the model removed, no exposed slice is empty, is_empty/len agree, and all read-side views (stable_prefix, iovs both arms, flatten both arms, flatten_into, front, iteration, stable_consumer) agree. Non-trivial: the history contains a merge (a push that did not add a slice), a byte consumption that stops inside a slice, and a second arena chunk or an anchored push. Distinct: hash of the serialised history.",
        assumptions: &[
            "borrowed buffers outlive every iovec (static pool)",
            "a Backref is used once, on the iovec (or taken iovec) that issued it, never after clear",
            "pop_front is only called when the stable prefix is non-empty (documented to panic otherwise)",
            "clone only with no placeholder pending",
        ],
        exhaustive_note: None,
        shards: |_t: Tier| 16,
        run,
        replay,
    }
}
