//! C14 — VouchedTime exists only inside the allowed window around a vouched base time.
use proptest::prelude::*;
use serde::{Deserialize, Serialize};
use serde_json::Value;
use vouched_time::VouchedTime;

use super::{parse_case, PropDef};
use crate::engine::{self, panics, CaseResult, Ctx, Fail, Outcome, Report, Tier};

/// The crate's vouching parameters (quoted from its unit tests) and the
/// matching checking parameters (quoted from vouched_time/src/lib.rs).
pub const VOUCH: raffle::VouchingParameters = raffle::VouchingParameters::parse_or_die("VOUCH-773ec2a0e62c20cd-f9e079b78e895091-fc1da7b1b77c57cb-594b9cce3091464a");
const CHECK: raffle::CheckingParameters = raffle::CheckingParameters::parse_or_die("CHECK-fc1da7b1b77c57cb-594b9cce3091464a");
/// Another parameter set that appears in the crate's tests.
const OTHER: raffle::VouchingParameters = raffle::VouchingParameters::parse_or_die("VOUCH-d165ec246b320939-2067990c3fc0f62d-309ee23efd609c4b-45b19da4a316ca0e");

const BACKWARD_MS: i128 = 59_900;
const FORWARD_MS: i128 = 2_990;

pub fn voucher_from_bits(bits: u64) -> raffle::Voucher {
    const _: () = assert!(std::mem::size_of::<raffle::Voucher>() == 8);
    unsafe { std::mem::transmute::<u64, raffle::Voucher>(bits) }
}

pub fn voucher_bits(v: raffle::Voucher) -> u64 {
    unsafe { std::mem::transmute::<raffle::Voucher, u64>(v) }
}

/// Base times whose (perfectly valid) voucher has a remarkable bit pattern: all zeroes, one,
/// all ones, only the top bit.  Vouching is a bijection of u64 for fixed parameters
/// (`(v + unoffset) * (unscale ^ TAG) + t == SUM` in wrapping arithmetic), so each pattern
/// belongs to exactly one base time; the table is computed from the published parameters and
/// every entry is verified against `vouch` before use.
pub fn remarkable_bases() -> &'static [u64] {
    use std::sync::OnceLock;
    static TABLE: OnceLock<Vec<u64>> = OnceLock::new();
    TABLE.get_or_init(|| {
        const UNOFFSET: u64 = 0xfc1da7b1b77c57cb;
        const UNSCALE: u64 = 0x594b9cce3091464a;
        let wanted_sum = u64::from_le_bytes(*b"Vouch!OK");
        let checking_tag = u64::from_le_bytes(*b"Checking");
        [0u64, 1, u64::MAX, 1 << 63, 0x0101_0101_0101_0101]
            .into_iter()
            .map(|v| (v, wanted_sum.wrapping_sub(v.wrapping_add(UNOFFSET).wrapping_mul(UNSCALE ^ checking_tag))))
            .filter(|(v, t)| voucher_bits(VOUCH.vouch(*t)) == *v)
            .map(|(_, t)| t)
            .collect()
    })
}

#[derive(Clone, Copy, Debug, PartialEq, Eq, Hash, Serialize, Deserialize)]
pub enum Base {
    /// base = floor(local ms) - diff  (so that local - base = diff)
    Diff(i64),
    Abs(u64),
}

#[derive(Clone, Copy, Debug, PartialEq, Eq, Hash, Serialize, Deserialize)]
pub enum VoucherKind {
    Correct,
    /// Voucher for base + this (wrapping).
    ForOtherValue(i64),
    OtherParameters,
    Bits(u64),
}

#[derive(Clone, Copy, Debug, PartialEq, Eq, Hash, Serialize, Deserialize)]
pub struct Case {
    /// Local time as nanoseconds since the Unix epoch (clamped to the calendar range).
    pub local_ns_hi: i64,
    pub local_ns_lo: u32,
    pub base: Base,
    pub voucher: VoucherKind,
}

fn calendar_range() -> (i128, i128) {
    let min = time::PrimitiveDateTime::MIN.assume_utc().unix_timestamp_nanos();
    let max = time::PrimitiveDateTime::MAX.assume_utc().unix_timestamp_nanos();
    (min, max)
}

impl Case {
    /// local time in ns: hi is milliseconds, lo is nanoseconds within the millisecond.
    pub fn local_ns(&self) -> i128 {
        let (min, max) = calendar_range();
        (self.local_ns_hi as i128 * 1_000_000 + (self.local_ns_lo % 1_000_000) as i128).clamp(min, max)
    }
}

fn to_primitive(ns: i128) -> time::PrimitiveDateTime {
    let odt = time::OffsetDateTime::from_unix_timestamp_nanos(ns).expect("within the calendar range");
    time::PrimitiveDateTime::new(odt.date(), odt.time())
}

/// The rule, in i128.
fn window_ok(local_ns: i128, base: u64) -> bool {
    let floor_ms = local_ns.div_euclid(1_000_000);
    let diff = floor_ms - base as i128;
    local_ns >= 0 && (-BACKWARD_MS..=FORWARD_MS).contains(&diff)
}

pub fn check_case(case: &Case) -> CaseResult {
    let local_ns = case.local_ns();
    let local = to_primitive(local_ns);
    let floor_ms = local_ns.div_euclid(1_000_000);
    let base: u64 = match case.base {
        Base::Diff(d) => (floor_ms - d as i128).clamp(0, u64::MAX as i128) as u64,
        Base::Abs(b) => b,
    };
    let voucher = match case.voucher {
        VoucherKind::Correct => VOUCH.vouch(base),
        VoucherKind::ForOtherValue(d) => VOUCH.vouch(base.wrapping_add(d as u64)),
        VoucherKind::OtherParameters => OTHER.vouch(base),
        VoucherKind::Bits(b) => voucher_from_bits(b),
    };
    let voucher_ok = CHECK.check(base, voucher);
    let want = voucher_ok && window_ok(local_ns, base);
    let diff = floor_ms - base as i128;
    let desc = format!("local {local} ({local_ns} ns), base {base} ms (local - base = {diff} ms), voucher {:?} (valid: {voucher_ok})", case.voucher);

    let got = panics::catch(|| VouchedTime::new(local, base, voucher));
    let got = match got {
        Err(p) => return Err(Fail::new(format!("new:panic:{}", p.signature()), format!("VouchedTime::new panicked for {desc}: {}", p.describe()))),
        Ok(r) => r,
    };
    let sig_for_accept = || {
        if !voucher_ok {
            "accepts:bad-voucher"
        } else if local_ns < 0 {
            if local_ns > -1_000_000 {
                "accepts:epoch:sub-ms-negative"
            } else {
                "accepts:before-epoch"
            }
        } else if base > (1u64 << 63) && diff < -BACKWARD_MS {
            "accepts:window:wraparound"
        } else {
            "accepts:outside-window"
        }
    };
    match (&got, want) {
        (Ok(_), false) => return Err(Fail::new(sig_for_accept(), format!("VouchedTime::new accepted {desc}"))),
        (Err(e), true) => return Err(Fail::new("rejects:inside-window", format!("VouchedTime::new rejected {desc}: {e}"))),
        _ => {}
    }
    let checked = panics::catch(|| VouchedTime::check(local, base, voucher).is_ok());
    match checked {
        Err(p) => return Err(Fail::new(format!("check:panic:{}", p.signature()), format!("VouchedTime::check panicked for {desc}"))),
        Ok(ok) if ok != want => return Err(Fail::new("check-disagrees", format!("VouchedTime::check says {ok} for {desc}, new says {want}"))),
        _ => {}
    }
    if let Ok(vt) = got {
        let back = panics::catch(|| vt.get_local_time());
        match back {
            Err(p) => return Err(Fail::new(format!("get_local_time:panic:{}", p.signature()), format!("get_local_time panicked on a constructed value for {desc}"))),
            Ok(t) if t != local => return Err(Fail::new("get_local_time", format!("get_local_time() returned {t}, built from {local}"))),
            _ => {}
        }
    }
    // The dying constructor applies the same rule (rejections sampled: a caught panic is slow).
    if want || (base ^ floor_ms as u64) % 16 == 0 {
        match (panics::catch(|| VouchedTime::new_or_die(local, base, voucher)), want) {
            (Ok(vt), true) => {
                let ok = panics::catch(|| {
                    vt.check_or_die();
                    vt.get_local_time()
                });
                if !matches!(ok, Ok(t) if t == local) {
                    return Err(Fail::new("new_or_die:value", format!("new_or_die built a value that fails check_or_die / get_local_time for {desc}")));
                }
            }
            (Err(_), false) => {}
            (Ok(_), false) => return Err(Fail::new(sig_for_accept(), format!("VouchedTime::new_or_die accepted {desc}"))),
            (Err(p), true) => return Err(Fail::new("rejects:inside-window", format!("VouchedTime::new_or_die panicked for {desc}: {}", p.describe()))),
        }
    }
    let near_edge = (diff + BACKWARD_MS).abs() <= 2 || (diff - FORWARD_MS).abs() <= 2;
    let near_epoch = local_ns.abs() <= 3_000_000_000;
    Ok(Outcome::new(near_edge || base >= 1u64 << 63 || near_epoch)
        .label_if(want, "accepted")
        .label_if(!want, "rejected")
        .label_if(near_edge, "within_2ms_of_an_edge")
        .label_if(base >= 1u64 << 63, "base>=2^63")
        .label_if(near_epoch, "local_within_3s_of_epoch")
        .label_if(local_ns < 0, "local_before_epoch")
        .label_if(!voucher_ok, "invalid_voucher")
        .label_if(case.local_ns_lo % 1_000_000 != 0, "fractional_millisecond"))
}

/// `now()` applies the same rule to the clock value it hands to the provider.
#[derive(Clone, Copy, Debug, PartialEq, Eq, Hash, Serialize, Deserialize)]
pub struct NowCase {
    /// base = floor(now ms) - diff
    pub diff: i64,
    pub voucher_ok: bool,
}

pub fn check_now(case: &NowCase) -> CaseResult {
    let seen = std::cell::Cell::new(None);
    let r = panics::catch(|| {
        VouchedTime::now(|now: time::OffsetDateTime| {
            let ns = now.unix_timestamp_nanos();
            let base = (ns.div_euclid(1_000_000) - case.diff as i128).clamp(0, u64::MAX as i128) as u64;
            seen.set(Some((ns, base, time::PrimitiveDateTime::new(now.date(), now.time()))));
            let v = if case.voucher_ok { VOUCH.vouch(base) } else { VOUCH.vouch(base ^ 1) };
            Ok((base, v))
        })
    });
    let r = match r {
        Err(p) => return Err(Fail::new(format!("now:panic:{}", p.signature()), format!("VouchedTime::now panicked: {}", p.describe()))),
        Ok(r) => r,
    };
    let Some((ns, base, local)) = seen.get() else {
        return Err(Fail::new("now:provider-not-called", "now() did not call the base time provider"));
    };
    let want = case.voucher_ok && window_ok(ns, base);
    match (r, want) {
        (Ok(vt), true) => {
            if vt.get_local_time() != local {
                return Err(Fail::new("now:local-time", "now() reports a local time different from the clock value it gave the provider"));
            }
        }
        (Err(_), false) => {}
        (Ok(_), false) => return Err(Fail::new("now:accepts", format!("now() accepted a base time {} ms away from the clock (voucher ok: {})", case.diff, case.voucher_ok))),
        (Err(e), true) => return Err(Fail::new("now:rejects", format!("now() rejected a base time {} ms away from the clock: {e}", case.diff))),
    }
    // now_or_die: the same rule against its own reading of the clock.
    let seen2 = std::cell::Cell::new(None);
    let r2 = panics::catch(|| {
        VouchedTime::now_or_die(|now: time::OffsetDateTime| {
            let ns = now.unix_timestamp_nanos();
            let base = (ns.div_euclid(1_000_000) - case.diff as i128).clamp(0, u64::MAX as i128) as u64;
            seen2.set(Some((ns, base, time::PrimitiveDateTime::new(now.date(), now.time()))));
            let v = if case.voucher_ok { VOUCH.vouch(base) } else { VOUCH.vouch(base ^ 1) };
            Ok((base, v))
        })
    });
    let Some((ns2, base2, local2)) = seen2.get() else {
        return Err(Fail::new("now:provider-not-called", "now_or_die() did not call the base time provider"));
    };
    let want2 = case.voucher_ok && window_ok(ns2, base2);
    match (r2, want2) {
        (Ok(vt), true) => {
            if vt.get_local_time() != local2 {
                return Err(Fail::new("now:local-time", "now_or_die() reports a local time different from the clock value it gave the provider"));
            }
        }
        (Err(_), false) => {}
        (Ok(_), false) => return Err(Fail::new("now:accepts", format!("now_or_die() accepted a base time {} ms away from the clock (voucher ok: {})", case.diff, case.voucher_ok))),
        (Err(p), true) => return Err(Fail::new("now:rejects", format!("now_or_die() panicked for a base time {} ms away from the clock: {}", case.diff, p.describe()))),
    }
    let near = (case.diff as i128 + BACKWARD_MS).abs() <= 2 || (case.diff as i128 - FORWARD_MS).abs() <= 2;
    Ok(Outcome::new(near).label_if(want, "accepted").label_if(!want, "rejected"))
}

fn local_strategy() -> impl Strategy<Value = (i64, u32)> {
    let (min, max) = calendar_range();
    let min_ms = (min / 1_000_000) as i64;
    let max_ms = (max / 1_000_000) as i64;
    let hi = prop_oneof![
        4 => -3_000i64..=3_000,
        1 => Just(0i64),
        1 => Just(-1i64),
        2 => (min_ms..=min_ms + 100_000),
        2 => (max_ms - 100_000..=max_ms),
        3 => 1_600_000_000_000i64..1_900_000_000_000,
        2 => min_ms..=max_ms,
        1 => 0i64..100_000,
    ];
    let lo = prop_oneof![3 => Just(0u32), 1 => Just(999_999u32), 1 => Just(500_000u32), 1 => Just(1u32), 2 => 0u32..1_000_000];
    (hi, lo)
}

fn base_strategy() -> impl Strategy<Value = Base> {
    prop_oneof![
        4 => (-59_903i64..=-59_897).prop_map(Base::Diff),
        4 => (2_987i64..=2_993).prop_map(Base::Diff),
        2 => Just(Base::Diff(0)),
        2 => (-70_000i64..10_000).prop_map(Base::Diff),
        1 => any::<i64>().prop_map(Base::Diff),
        // Discrepancies that look acceptable after a truncation to fewer bits: k * 2^p + (something in or near the window).
        3 => (8u32..=62, 1i64..=4, any::<bool>(), prop_oneof![-59_903i64..=-59_897, 2_987i64..=2_993, -60_000i64..=3_000, Just(0i64)])
            .prop_map(|(p, k, neg, w)| Base::Diff((if neg { -k } else { k } << p).wrapping_add(w))),
        2 => (0u64..=3_000).prop_map(Base::Abs),
        3 => (u64::MAX - 70_000..=u64::MAX).prop_map(Base::Abs),
        1 => any::<u64>().prop_map(Base::Abs),
        1 => ((1u64 << 63) - 5..(1u64 << 63) + 5).prop_map(Base::Abs),
        1 => (0usize..8).prop_map(|k| Base::Abs(remarkable_bases().get(k % remarkable_bases().len().max(1)).copied().unwrap_or(0))),
    ]
}

fn voucher_strategy() -> impl Strategy<Value = VoucherKind> {
    prop_oneof![
        12 => Just(VoucherKind::Correct),
        1 => prop_oneof![Just(1i64), Just(-1i64), any::<i64>()].prop_map(VoucherKind::ForOtherValue),
        1 => Just(VoucherKind::OtherParameters),
        1 => any::<u64>().prop_map(VoucherKind::Bits),
    ]
}

fn case_strategy() -> impl Strategy<Value = Case> {
    (local_strategy(), base_strategy(), voucher_strategy()).prop_map(|((hi, lo), base, voucher)| Case {
        local_ns_hi: hi,
        local_ns_lo: lo,
        base,
        voucher,
    })
}

/// Both window edges +-3 ms, at local times around the epoch and at the calendar limits,
/// with whole and fractional milliseconds: complete grid.
fn edge_grid() -> Vec<Case> {
    let (min, max) = calendar_range();
    let anchors: Vec<i64> = vec![
        0,
        1,
        2_989,
        2_990,
        2_991,
        59_899,
        59_900,
        59_901,
        100,
        1_713_027_659_000,
        (max / 1_000_000) as i64,
        (max / 1_000_000) as i64 - 60_000,
        (min / 1_000_000) as i64,
        -1,
        -2,
        -60_000,
    ];
    let mut v = vec![];
    for hi in anchors {
        for lo in [0u32, 1, 500_000, 999_999] {
            for d in (-59_903i64..=-59_897).chain(2_987..=2_993).chain([0, -1, 1]) {
                v.push(Case {
                    local_ns_hi: hi,
                    local_ns_lo: lo,
                    base: Base::Diff(d),
                    voucher: VoucherKind::Correct,
                });
            }
            for b in [0u64, 1, 2_990, 2_991, u64::MAX, u64::MAX - 1_000, u64::MAX - 59_900, u64::MAX - 59_901, 1 << 63] {
                v.push(Case {
                    local_ns_hi: hi,
                    local_ns_lo: lo,
                    base: Base::Abs(b),
                    voucher: VoucherKind::Correct,
                });
            }
        }
    }
    v
}

/// Several calls in a row on the same thread over a small pool of base times and the
/// vouchers that belong to them: each call is judged on its own, whatever came before
/// (a verdict must not depend on earlier calls: no memo of "this base / this voucher was fine").
#[derive(Clone, Debug, PartialEq, Eq, Hash, Serialize, Deserialize)]
pub struct SeqCase {
    pub local_ms: i64,
    /// Base times, as differences from the local time.
    pub pool: Vec<i64>,
    /// (index into the pool for the base, index into the pool for the voucher's base, sub-millisecond part).
    pub calls: Vec<(u8, u8, u32)>,
}

pub fn check_seq(case: &SeqCase) -> CaseResult {
    if case.pool.is_empty() {
        return Ok(Outcome::new(false));
    }
    let base_of = |i: u8| -> u64 { (case.local_ms as i128 - case.pool[i as usize % case.pool.len()] as i128).clamp(0, u64::MAX as i128) as u64 };
    let mut crossed = 0usize;
    let mut accepted_then_crossed = false;
    let mut accepted_before = false;
    for (k, (bi, vi, lo)) in case.calls.iter().enumerate() {
        let base = base_of(*bi);
        let vbase = base_of(*vi);
        let single = Case {
            local_ns_hi: case.local_ms,
            local_ns_lo: *lo,
            base: Base::Abs(base),
            voucher: VoucherKind::ForOtherValue(vbase.wrapping_sub(base) as i64),
        };
        check_case(&single).map_err(|f| Fail::new(f.sig, format!("call #{k} of a sequence (earlier calls: {:?}): {}", &case.calls[..k], f.msg)))?;
        if base != vbase {
            crossed += 1;
            accepted_then_crossed |= accepted_before;
        } else {
            accepted_before = true;
        }
    }
    Ok(Outcome::new(accepted_then_crossed).label_if(crossed > 0, "voucher_of_another_pool_member").label_if(accepted_then_crossed, "mismatch_after_a_match"))
}

fn seq_strategy() -> impl Strategy<Value = SeqCase> {
    (
        prop_oneof![3 => 1_600_000_000_000i64..1_900_000_000_000, 1 => 100_000i64..10_000_000],
        proptest::collection::vec(prop_oneof![4 => -59_900i64..=2_990, 1 => -70_000i64..10_000, 1 => Just(0i64)], 1..4),
        proptest::collection::vec((0u8..3, 0u8..3, prop_oneof![2 => Just(0u32), 1 => 0u32..1_000_000]), 2..8),
    )
        .prop_map(|(local_ms, pool, mut calls)| {
            // Mostly the matching voucher.
            for (k, c) in calls.iter_mut().enumerate() {
                if k % 3 != 2 {
                    c.1 = c.0;
                }
            }
            SeqCase { local_ms, pool, calls }
        })
}

pub fn run(ctx: &Ctx, rep: &mut Report) {
    engine::enumerate(ctx, rep, "edge-grid", edge_grid().into_iter(), check_case);
    let cases = ctx.share(ctx.tier.pick(100_000, 4_000_000));
    engine::drive(ctx, rep, "call-sequences", seq_strategy(), cases, check_seq);
    let cases = ctx.share(ctx.tier.pick(6_000_000, 160_000_000));
    engine::drive(ctx, rep, "random", case_strategy(), cases, check_case);
    let now_cases = (-59_903i64..=-59_897).chain(2_987..=2_993).chain([0, 100_000, -100_000]).flat_map(|diff| [true, false].map(move |voucher_ok| NowCase { diff, voucher_ok }));
    engine::enumerate(ctx, rep, "now", now_cases, check_now);
}

fn replay(_ctx: &Ctx, group: &str, case: &Value) -> CaseResult {
    if group == "call-sequences" {
        check_seq(&parse_case::<SeqCase>(case)?)
    } else if group == "now" {
        check_now(&parse_case::<NowCase>(case)?)
    } else {
        check_case(&parse_case::<Case>(case)?)
    }
}

pub fn def() -> PropDef {
    PropDef {
        id: "C14",
        rule: "A case is (local time, base time, voucher): the local time is milliseconds + a sub-millisecond part, drawn around the epoch (+-3 s, including negative), at both calendar limits (PrimitiveDateTime::MIN / MAX), in 2020..2030 and uniformly; the base time is floor(local ms) minus a difference around both window edges (-59903..-59897, 2987..2993), 0, random differences, k*2^p + w for p = 8..62, k = +-1..4 and w in or around the window (what a truncating cast would fold back into the window), or an absolute value near 0, near 2^64, near 2^63 or uniform; the voucher is the correct one, one for base+-1 / another value, one from the other parameter set found in the crate's tests, or random bits. Oracle in i128: accept iff raffle's checker (with the crate's CHECK string) accepts the voucher for the base, the local time is >= the epoch and -59900 <= floor(local ms) - base <= 2990; new never panics; check agrees with new; get_local_time returns the input. call-sequences: 2..7 calls in a row on one thread over a pool of 1..3 base times and the vouchers that belong to them (every third call may present the voucher of another pool member), each call judged on its own: a verdict must not depend on earlier calls. edge-grid enumerates the same edges at 16 anchor times x 4 sub-millisecond parts; now: now() with a provider that answers clock - diff for diffs around both edges must apply the same rule to the clock value handed to the provider. Non-trivial: difference within 2 ms of an edge, or base >= 2^63, or local time within 3 s of the epoch. Distinct: hash of the serialised case / by enumeration.",
        assumptions: &[
            "the millisecond of a local time is its floor, as the crate's constants document (they are 10 ms inside 3 s / 60 s 'to account for rounding, truncation, and off-by-ones')",
            "voucher validity is decided by the raffle crate with the CHECK parameter string quoted from vouched_time/src/lib.rs",
        ],
        exhaustive_note: Some("edge-grid and now: complete grids"),
        shards: |t: Tier| t.pick(8, 16),
        run,
        replay,
    }
}
