//! C11 — Rough TLV round trip and layout: encode then view yields the same pairs.
use std::borrow::Cow;

use owning_iovec::{OwningIovec, ZeroCopySink};
use proptest::prelude::*;
use rough_tlv::{MessageView, MessageWrapper, Tag, ToRoughTLV};
use serde::{Deserialize, Serialize};
use serde_json::{json, Value};

use super::{parse_case, PropDef};
use crate::engine::bytespec::{show, Hex};
use crate::engine::{self, CaseResult, Ctx, Fail, Outcome, Report, Tier};
use crate::refimpl::hcobs_ref::{self, LIMIT_FIRST, LIMIT_LATER};
use crate::refimpl::tlv_ref;

#[derive(Clone, Debug, PartialEq, Eq, Hash, Serialize, Deserialize)]
pub enum ValSpec {
    /// `&[u8]`
    Bytes(Hex),
    /// `Cow::Borrowed(&[u8])`
    CowBorrowed(Hex),
    /// `Cow::Owned(Vec<u8>)`
    CowOwned(Hex),
    /// `&str`
    Str(String),
    /// `Cow::Borrowed(&str)`
    CowStrBorrowed(String),
    /// `Cow::Owned(String)`
    CowStrOwned(String),
    /// A nested message.
    Nested { ctor: Ctor, pairs: Vec<(u32, ValSpec)> },
    /// A MessageView over the encoding of a nested message (re-encodes its bytes).
    View { pairs: Vec<(u32, Hex)> },
}

#[derive(Clone, Copy, Debug, PartialEq, Eq, Hash, Serialize, Deserialize)]
pub enum Ctor {
    New,
    FromSlice,
    FromSorted,
}

#[derive(Clone, Copy, Debug, PartialEq, Eq, Hash, Serialize, Deserialize)]
pub enum SinkKind {
    Iovec,
    HcobsEncoder,
    /// A sink supplied by the caller (the trait is public): it concatenates what it is given
    /// and records how.
    Custom,
}

/// A caller-supplied [`ZeroCopySink`].
#[derive(Default)]
struct RecordingSink<'a> {
    bytes: Vec<u8>,
    borrowed: Vec<&'a [u8]>,
}

impl<'a> ZeroCopySink<'a> for RecordingSink<'a> {
    fn append_copy(&mut self, bytes: &[u8]) {
        self.bytes.extend_from_slice(bytes);
    }
    fn append_borrow(&mut self, bytes: &'a [u8]) {
        self.borrowed.push(bytes);
        self.bytes.extend_from_slice(bytes);
    }
}

#[derive(Clone, Debug, PartialEq, Eq, Hash, Serialize, Deserialize)]
pub struct Case {
    pub ctor: Ctor,
    pub pairs: Vec<(u32, ValSpec)>,
    pub sink: SinkKind,
}

/// Values of every kind the library knows how to encode, behind one type
/// so that a single message can mix them.
enum Val<'a> {
    Bytes(&'a [u8]),
    CowB(Cow<'a, [u8]>),
    Str(&'a str),
    CowS(Cow<'a, str>),
    Nested(Box<MessageWrapper<'a, 'a, Val<'a>>>),
    /// Owns the sorted entries a `new_from_sorted` / `new_from_slice` nested wrapper borrows.
    View(MessageView<'a>),
}

impl<'a> ToRoughTLV<'a> for Val<'a> {
    fn to_rough_tlv<'dst, Sink>(&self, sink: &mut Sink)
    where
        'a: 'dst,
        Sink: ZeroCopySink<'dst> + ?Sized,
    {
        match self {
            Val::Bytes(b) => b.to_rough_tlv(sink),
            Val::CowB(c) => c.to_rough_tlv(sink),
            Val::Str(s) => s.to_rough_tlv(sink),
            Val::CowS(c) => c.to_rough_tlv(sink),
            Val::Nested(m) => m.to_rough_tlv(sink),
            Val::View(v) => v.to_rough_tlv(sink),
        }
    }

    fn rough_tlv_len(&self) -> usize {
        match self {
            Val::Bytes(b) => b.rough_tlv_len(),
            Val::CowB(c) => c.rough_tlv_len(),
            Val::Str(s) => s.rough_tlv_len(),
            Val::CowS(c) => c.rough_tlv_len(),
            Val::Nested(m) => m.rough_tlv_len(),
            Val::View(v) => v.rough_tlv_len(),
        }
    }
}

/// Expected bytes of a value.
fn expected_value(spec: &ValSpec) -> Vec<u8> {
    match spec {
        ValSpec::Bytes(h) | ValSpec::CowBorrowed(h) | ValSpec::CowOwned(h) => h.0.clone(),
        ValSpec::Str(s) | ValSpec::CowStrBorrowed(s) | ValSpec::CowStrOwned(s) => s.as_bytes().to_vec(),
        ValSpec::Nested { pairs, .. } => expected_message(pairs),
        ValSpec::View { pairs } => {
            let p: Vec<(u32, Vec<u8>)> = pairs.iter().map(|(t, h)| (*t, h.0.clone())).collect();
            tlv_ref::layout(&tlv_ref::sorted(&p))
        }
    }
}

fn expected_pairs(pairs: &[(u32, ValSpec)]) -> Vec<(u32, Vec<u8>)> {
    let raw: Vec<(u32, Vec<u8>)> = pairs.iter().map(|(t, v)| (*t, expected_value(v))).collect();
    tlv_ref::sorted(&raw)
}

fn expected_message(pairs: &[(u32, ValSpec)]) -> Vec<u8> {
    tlv_ref::layout(&expected_pairs(pairs))
}

fn tags_sorted(pairs: &[(u32, ValSpec)]) -> bool {
    pairs.windows(2).all(|w| w[0].0 <= w[1].0)
}

/// Storage that nested `FromSlice` / `FromSorted` wrappers borrow from.
/// Leaked for the duration of one case (freed when the arena is dropped).
struct Arena<'a> {
    slabs: std::cell::RefCell<Vec<*mut Vec<(Tag, Val<'a>)>>>,
    views: std::cell::RefCell<Vec<*mut Vec<u8>>>,
}

impl<'a> Arena<'a> {
    fn new() -> Self {
        Arena {
            slabs: Default::default(),
            views: Default::default(),
        }
    }

    fn keep(&self, v: Vec<(Tag, Val<'a>)>) -> &'a mut [(Tag, Val<'a>)] {
        let p = Box::into_raw(Box::new(v));
        self.slabs.borrow_mut().push(p);
        unsafe { (&mut *p).as_mut_slice() }
    }

    fn keep_bytes(&self, v: Vec<u8>) -> &'a [u8] {
        let p = Box::into_raw(Box::new(v));
        self.views.borrow_mut().push(p);
        unsafe { (&*p).as_slice() }
    }

    /// Frees everything; must only be called once nothing borrows from it.
    unsafe fn release(&self) {
        // Entries may borrow from later slabs' data only through `Val::Nested`
        // wrappers, which do not look at their entries when dropped.
        for p in self.slabs.borrow_mut().drain(..).rev() {
            drop(unsafe { Box::from_raw(p) });
        }
        for p in self.views.borrow_mut().drain(..) {
            drop(unsafe { Box::from_raw(p) });
        }
    }
}

enum Built<'a> {
    Wrapper(MessageWrapper<'a, 'a, Val<'a>>),
    /// The constructor refused, and the reference agrees.
    RejectedAsExpected,
}

fn build_val<'a>(spec: &'a ValSpec, arena: &Arena<'a>) -> Result<Option<Val<'a>>, Fail> {
    Ok(Some(match spec {
        ValSpec::Bytes(h) => Val::Bytes(&h.0),
        ValSpec::CowBorrowed(h) => Val::CowB(Cow::Borrowed(&h.0)),
        ValSpec::CowOwned(h) => Val::CowB(Cow::Owned(h.0.clone())),
        ValSpec::Str(s) => Val::Str(s),
        ValSpec::CowStrBorrowed(s) => Val::CowS(Cow::Borrowed(s.as_str())),
        ValSpec::CowStrOwned(s) => Val::CowS(Cow::Owned(s.clone())),
        ValSpec::Nested { ctor, pairs } => match build_wrapper(*ctor, pairs, arena)? {
            Built::Wrapper(w) => Val::Nested(Box::new(w)),
            Built::RejectedAsExpected => return Ok(None),
        },
        ValSpec::View { pairs } => {
            let p: Vec<(u32, Vec<u8>)> = pairs.iter().map(|(t, h)| (*t, h.0.clone())).collect();
            let bytes = arena.keep_bytes(tlv_ref::layout(&tlv_ref::sorted(&p)));
            match MessageView::new(Cow::Borrowed(bytes)) {
                Ok(v) => Val::View(v),
                Err(e) => return Err(Fail::new("view:rejects-layout", format!("MessageView rejected a reference-layout message: {e}"))),
            }
        }
    }))
}

/// Builds a tag through one of the six ways the crate offers (chosen by position), and
/// checks that all the ways back to an integer agree.
fn mk_tag(t: u32, how: usize) -> Result<Tag, Fail> {
    let tag: Tag = match how % 6 {
        0 => Tag::new_from_u32(t),
        1 => Tag::new(&t.to_le_bytes()),
        2 => (&t).into(),
        3 => t.into(),
        4 => (&t.to_le_bytes()).into(),
        _ => t.to_le_bytes().into(),
    };
    let back: [u32; 3] = [tag.value(), u32::from(tag), u32::from(&tag)];
    if back != [t; 3] || tag.bytes != t.to_le_bytes() || tag != Tag::new_from_u32(t) {
        return Err(Fail::new("tag:conversions", format!("tag {t:#x} built the {}-th way reads back as {back:?} with bytes {:?}", how % 6, tag.bytes)));
    }
    Ok(tag)
}

fn build_wrapper<'a>(ctor: Ctor, pairs: &'a [(u32, ValSpec)], arena: &Arena<'a>) -> Result<Built<'a>, Fail> {
    let mut elements: Vec<(Tag, Val<'a>)> = vec![];
    for (i, (t, v)) in pairs.iter().enumerate() {
        match build_val(v, arena)? {
            Some(val) => elements.push((mk_tag(*t, i + *t as usize)?, val)),
            None => return Ok(Built::RejectedAsExpected),
        }
    }
    let sorted = tags_sorted(pairs);
    let r = match ctor {
        Ctor::New => MessageWrapper::new(elements),
        Ctor::FromSlice => MessageWrapper::new_from_slice(arena.keep(elements)),
        Ctor::FromSorted => MessageWrapper::new_from_sorted(arena.keep(elements)),
    };
    match (r, ctor == Ctor::FromSorted && !sorted) {
        (Ok(w), false) => Ok(Built::Wrapper(w)),
        (Err(_), true) => Ok(Built::RejectedAsExpected),
        (Ok(_), true) => Err(Fail::new("ctor:accepts-unsorted", "new_from_sorted accepted a list whose tags decrease somewhere")),
        (Err(e), false) => Err(Fail::new("ctor:rejects-valid", format!("{ctor:?} rejected a small valid list: {e}"))),
    }
}

struct Flags {
    repeated: bool,
    empty_value: bool,
    nested: bool,
    small_n: bool,
}

fn flags(pairs: &[(u32, ValSpec)]) -> Flags {
    let mut tags: Vec<u32> = pairs.iter().map(|p| p.0).collect();
    tags.sort_unstable();
    Flags {
        repeated: tags.windows(2).any(|w| w[0] == w[1]),
        empty_value: pairs.iter().any(|(_, v)| expected_value(v).is_empty()),
        nested: pairs.iter().any(|(_, v)| matches!(v, ValSpec::Nested { .. } | ValSpec::View { .. })),
        small_n: pairs.len() <= 1,
    }
}

pub fn check_case(case: &Case) -> CaseResult {
    let arena = Arena::new();
    let r = check_case_inner(case, &arena);
    unsafe { arena.release() };
    r
}

fn check_case_inner<'a>(case: &'a Case, arena: &Arena<'a>) -> CaseResult {
    let built = build_wrapper(case.ctor, &case.pairs, arena)?;
    let f = flags(&case.pairs);
    let outcome = Outcome::new(f.repeated || f.empty_value || f.nested || f.small_n)
        .label_if(f.repeated, "repeated_tags")
        .label_if(f.empty_value, "empty_value")
        .label_if(f.nested, "nested_message")
        .label_if(f.small_n, "N<=1")
        .label_if(case.sink == SinkKind::HcobsEncoder, "hcobs_sink");
    let wrapper = match built {
        Built::Wrapper(w) => w,
        Built::RejectedAsExpected => return Ok(outcome.label("unsorted_rejected_by_new_from_sorted")),
    };
    let want_pairs = expected_pairs(&case.pairs);
    let want = tlv_ref::layout(&want_pairs);

    // Emit into the chosen sink.
    let bytes: Vec<u8> = match case.sink {
        SinkKind::Iovec => {
            let mut sink = OwningIovec::new();
            if case.pairs.len() % 2 == 1 {
                // Through the forwarding impls: `&mut Sink` as a sink, `&T` as a value.
                // (a generic function instantiated at `&W` and `&mut S`: method syntax would auto-deref past the impls)
                fn emit<'v, T: ToRoughTLV<'v>, S: ZeroCopySink<'v>>(value: T, mut sink: S) -> usize {
                    value.to_rough_tlv(&mut sink);
                    value.rough_tlv_len()
                }
                let claimed = emit(&wrapper, &mut sink);
                if claimed != wrapper.rough_tlv_len() {
                    return Err(Fail::new("len", "rough_tlv_len() through a reference differs".to_string()));
                }
            } else {
                wrapper.to_rough_tlv(&mut sink);
            }
            sink.flatten().map_err(|_| Fail::new("sink:pending", "iovec sink has a placeholder pending"))?
        }
        SinkKind::Custom => {
            let mut sink = RecordingSink::default();
            wrapper.to_rough_tlv(&mut sink);
            sink.bytes
        }
        SinkKind::HcobsEncoder => {
            let mut enc = hcobs::Encoder::new();
            wrapper.to_rough_tlv(&mut enc);
            let stuffed = enc.finish().flatten().map_err(|_| Fail::new("sink:pending", "encoder sink has a placeholder pending"))?;
            hcobs_ref::decode(&stuffed, LIMIT_FIRST, LIMIT_LATER).map_err(|e| Fail::new("sink:hcobs", format!("HCOBS encoder sink produced a malformed stream: {e:?}")))?
        }
    };
    // Emitting is repeatable: a second emission of the same wrapper gives the same bytes.
    {
        let mut again = OwningIovec::new();
        wrapper.to_rough_tlv(&mut again);
        let again = again.flatten().map_err(|_| Fail::new("sink:pending", "iovec sink has a placeholder pending"))?;
        if again != bytes {
            return Err(Fail::new("layout:second-emission", super::codec::mismatch("a second to_rough_tlv of the same wrapper differs from the first", &again, &bytes)));
        }
    }
    if bytes != want {
        return Err(Fail::new("layout", super::codec::mismatch("emitted bytes differ from the Roughtime layout", &bytes, &want)));
    }
    if (&wrapper).rough_tlv_len() != wrapper.rough_tlv_len() {
        return Err(Fail::new("len", "rough_tlv_len() through a reference differs".to_string()));
    }
    if wrapper.rough_tlv_len() != bytes.len() {
        return Err(Fail::new("len", format!("rough_tlv_len() is {} but {} bytes were emitted", wrapper.rough_tlv_len(), bytes.len())));
    }

    // View it, at an address that is 0..15 modulo 16 (messages are found in the middle of buffers).
    let placed = crate::engine::bytespec::Placed::new(&bytes, crate::engine::bytespec::Placed::misalign_of(&bytes));
    let bytes = placed.bytes();
    let view = MessageView::new(Cow::Borrowed(bytes)).map_err(|e| Fail::new("view:rejects", format!("MessageView rejected the emitted bytes {}: {e}", show(&bytes))))?;
    if view.len() != want_pairs.len() || view.is_empty() != want_pairs.is_empty() {
        return Err(Fail::new("view:len", format!("view reports {} pairs, expected {}", view.len(), want_pairs.len())));
    }
    let second = MessageView::new(Cow::Borrowed(&bytes[..])).map_err(|e| Fail::new("view:rejects", format!("second MessageView::new on the same bytes failed: {e}")))?;
    if view.inner()[..] != bytes[..] || second.into_inner()[..] != bytes[..] {
        return Err(Fail::new("view:inner", "inner() / into_inner() do not return the bytes the view was built on".to_string()));
    }
    let iterated: Vec<(u32, Vec<u8>)> = view.iter().map(|(t, v)| (t.value(), v.to_vec())).collect();
    if iterated != want_pairs {
        return Err(Fail::new("view:iter", format!("iteration yields {iterated:?}, expected {want_pairs:?}")));
    }
    let tags: Vec<u32> = view.tags().iter().map(|t| t.value()).collect();
    if tags != want_pairs.iter().map(|p| p.0).collect::<Vec<_>>() {
        return Err(Fail::new("view:tags", format!("tags() is {tags:?}")));
    }
    for (i, (t, v)) in want_pairs.iter().enumerate() {
        let got = view.get(i).map(|(t, v)| (t.value(), v.to_vec()));
        if got != Some((*t, v.clone())) {
            return Err(Fail::new("view:get", format!("get({i}) = {got:?}, expected ({t}, {})", show(v))));
        }
        if view.get_value(i).map(|v| v.to_vec()) != Some(v.clone()) {
            return Err(Fail::new("view:get_value", format!("get_value({i}) differs from the {i}-th value")));
        }
    }
    let n = want_pairs.len();
    if n > 0 || true {
        for i in [n, n + 1, usize::MAX] {
            if view.get(i).is_some() {
                return Err(Fail::new("view:get-beyond", format!("get({i}) on a message of {n} pairs returned something")));
            }
        }
    }
    // Tag lookup: present tags give a value stored under that tag; absent ones nothing.
    let mut probe: Vec<u32> = want_pairs.iter().map(|p| p.0).collect();
    probe.extend(want_pairs.iter().map(|p| p.0.wrapping_add(1)));
    probe.extend([0, 1, u32::MAX]);
    for t in probe {
        let stored: Vec<&Vec<u8>> = want_pairs.iter().filter(|p| p.0 == t).map(|p| &p.1).collect();
        match view.find(t) {
            None if stored.is_empty() => {}
            Some(v) if stored.iter().any(|s| s[..] == *v) => {}
            other => return Err(Fail::new("view:find", format!("find({t}) = {:?}, values stored under that tag: {stored:?}", other.map(show)))),
        }
    }
    Ok(outcome)
}

/// A value that only claims a length: exercises the size limits without allocating.
struct Claimed(usize);

impl<'a> ToRoughTLV<'a> for Claimed {
    fn to_rough_tlv<'dst, Sink>(&self, _sink: &mut Sink)
    where
        'a: 'dst,
        Sink: ZeroCopySink<'dst> + ?Sized,
    {
        panic!("a claimed-length value is never encoded by this harness");
    }

    fn rough_tlv_len(&self) -> usize {
        self.0
    }
}

#[derive(Clone, Debug, PartialEq, Eq, Hash, Serialize, Deserialize)]
pub struct LimitCase {
    pub ctor: Ctor,
    /// (tag, claimed length)
    pub pairs: Vec<(u32, u64)>,
}

pub fn check_limits(case: &LimitCase) -> CaseResult {
    const MAX: u128 = i32::MAX as u128;
    let n = case.pairs.len() as u128;
    let total: u128 = 4 + 4 * n.saturating_sub(1) + 4 * n + case.pairs.iter().map(|p| p.1 as u128).sum::<u128>();
    let each_ok = case.pairs.iter().all(|p| p.1 as u128 <= MAX);
    let sorted = case.pairs.windows(2).all(|w| w[0].0 <= w[1].0);
    let want_ok = n <= MAX && each_ok && total <= MAX && (case.ctor != Ctor::FromSorted || sorted);
    let mut elements: Vec<(Tag, Claimed)> = case.pairs.iter().map(|(t, l)| (Tag::new_from_u32(*t), Claimed(*l as usize))).collect();
    let r = match case.ctor {
        Ctor::New => MessageWrapper::new(elements).map(|w| w.rough_tlv_len()),
        Ctor::FromSlice => MessageWrapper::new_from_slice(&mut elements).map(|w| w.rough_tlv_len()),
        Ctor::FromSorted => MessageWrapper::new_from_sorted(&elements).map(|w| w.rough_tlv_len()),
    };
    match (r, want_ok) {
        (Ok(len), true) if len as u128 == total => {}
        (Ok(len), true) => return Err(Fail::new("limits:len", format!("rough_tlv_len() is {len} for claimed lengths {:?}, expected {total}", case.pairs))),
        (Err(_), false) => {}
        (Ok(_), false) => return Err(Fail::new("limits:accepts", format!("{:?} accepted claimed lengths {:?} (total {total}, each within i32::MAX: {each_ok}, sorted: {sorted})", case.ctor, case.pairs))),
        (Err(e), true) => return Err(Fail::new("limits:rejects", format!("{:?} rejected claimed lengths {:?} (total {total} <= i32::MAX): {e}", case.ctor, case.pairs))),
    }
    let near = |x: u128| x + 3 >= MAX && x <= MAX + 3;
    Ok(Outcome::new(near(total) || case.pairs.iter().any(|p| near(p.1 as u128)))
        .label_if(want_ok, "accepted")
        .label_if(!want_ok, "rejected")
        .label_if(!each_ok, "single_value_too_large")
        .label_if(each_ok && total > MAX, "total_too_large"))
}

/// More than i32::MAX pairs (zero-sized values): 8 GiB of zero pages, thorough tier only.
fn check_too_many_pairs() -> CaseResult {
    struct Nothing;
    impl<'a> ToRoughTLV<'a> for Nothing {
        fn to_rough_tlv<'dst, Sink>(&self, _sink: &mut Sink)
        where
            'a: 'dst,
            Sink: ZeroCopySink<'dst> + ?Sized,
        {
        }
        fn rough_tlv_len(&self) -> usize {
            0
        }
    }
    let n = i32::MAX as usize + 1;
    let mut elements: Vec<(Tag, Nothing)> = Vec::new();
    if elements.try_reserve_exact(n).is_err() {
        return Ok(Outcome::trivial().label("too_many_pairs:allocation_refused"));
    }
    // Zero-filled: tag 0 everywhere (sorted).
    unsafe {
        std::ptr::write_bytes(elements.as_mut_ptr(), 0, n);
        elements.set_len(n);
    }
    let r = MessageWrapper::new_from_sorted(&elements).map(|w| w.rough_tlv_len());
    match r {
        Err(_) => Ok(Outcome::new(true).label("too_many_pairs_rejected")),
        Ok(len) => Err(Fail::new("limits:too-many-pairs", format!("a list of {n} pairs was accepted (len {len})"))),
    }
}

fn leaf() -> impl Strategy<Value = ValSpec> {
    let bytes = prop_oneof![
        3 => Just(vec![]),
        4 => proptest::collection::vec(any::<u8>(), 1..6),
        2 => proptest::collection::vec(any::<u8>(), 60..70),
        1 => proptest::collection::vec(any::<u8>(), 250..262),
        1 => proptest::collection::vec(prop_oneof![Just(0xFEu8), Just(0xFDu8)], 1..8),
        1 => proptest::collection::vec(any::<u8>(), 0..2048),
    ];
    let text = prop_oneof![Just(String::new()), "[a-zA-Z0-9 ]{1,12}", "\\PC{0,6}"];
    prop_oneof![
        3 => bytes.clone().prop_map(|b| ValSpec::Bytes(Hex(b))),
        2 => bytes.clone().prop_map(|b| ValSpec::CowBorrowed(Hex(b))),
        2 => bytes.prop_map(|b| ValSpec::CowOwned(Hex(b))),
        1 => text.clone().prop_map(ValSpec::Str),
        1 => text.clone().prop_map(ValSpec::CowStrBorrowed),
        1 => text.prop_map(ValSpec::CowStrOwned),
    ]
}

fn tag() -> impl Strategy<Value = u32> {
    prop_oneof![5 => 0u32..6, 1 => Just(u32::MAX), 1 => Just(0x544f4f52u32), 2 => any::<u32>()]
}

fn ctor() -> impl Strategy<Value = Ctor> {
    prop_oneof![Just(Ctor::New), Just(Ctor::FromSlice), Just(Ctor::FromSorted)]
}

fn val() -> impl Strategy<Value = ValSpec> {
    leaf().prop_recursive(3, 24, 5, |inner| {
        prop_oneof![
            3 => (ctor(), proptest::collection::vec((tag(), inner), 0..5)).prop_map(|(ctor, mut pairs)| {
                // Nested FromSorted wrappers are given sorted input (the unsorted case is exercised at top level).
                if ctor == Ctor::FromSorted {
                    pairs.sort_by_key(|p| p.0);
                }
                ValSpec::Nested { ctor, pairs }
            }),
            1 => proptest::collection::vec((tag(), proptest::collection::vec(any::<u8>(), 0..5).prop_map(Hex)), 0..4).prop_map(|pairs| ValSpec::View { pairs }),
        ]
    })
}

fn case_strategy() -> impl Strategy<Value = Case> {
    (
        ctor(),
        prop_oneof![8 => proptest::collection::vec((tag(), val()), 0..8), 2 => proptest::collection::vec((tag(), val()), 0..41), 1 => proptest::collection::vec((tag(), leaf()), 41..300)],
        any::<bool>(),
        prop_oneof![3 => Just(SinkKind::Iovec), 2 => Just(SinkKind::HcobsEncoder), 1 => Just(SinkKind::Custom)],
    )
        .prop_map(|(ctor, mut pairs, sort_first, sink)| {
            if ctor == Ctor::FromSorted && sort_first {
                pairs.sort_by_key(|p| p.0);
            }
            Case { ctor, pairs, sink }
        })
}

fn limit_case() -> impl Strategy<Value = LimitCase> {
    let max = i32::MAX as u64;
    let len = prop_oneof![
        4 => 0u64..16,
        2 => (max - 40)..(max + 4),
        1 => Just(max),
        1 => Just(max + 1),
        1 => (max / 2 - 20)..(max / 2 + 20),
        1 => Just(u64::MAX / 2),
        1 => Just(usize::MAX as u64),
    ];
    (ctor(), proptest::collection::vec((0u32..4, len), 0..5)).prop_map(|(ctor, pairs)| LimitCase { ctor, pairs })
}

/// Totals exactly at i32::MAX + {-1, 0, 1} for N = 0..3.
fn limit_edges() -> Vec<LimitCase> {
    let max = i32::MAX as u64;
    let mut v = vec![];
    for ctor in [Ctor::New, Ctor::FromSlice, Ctor::FromSorted] {
        for n in 1u64..=3 {
            let header = 4 + 4 * (n - 1) + 4 * n;
            for delta in [-1i64, 0, 1] {
                let total_values = (max as i64 - header as i64 + delta) as u64;
                let mut pairs: Vec<(u32, u64)> = (0..n).map(|i| (i as u32, 0)).collect();
                pairs[(n - 1) as usize].1 = total_values;
                v.push(LimitCase { ctor, pairs: pairs.clone() });
                if n >= 2 {
                    pairs[0].1 = total_values / 2;
                    pairs[(n - 1) as usize].1 = total_values - total_values / 2;
                    v.push(LimitCase { ctor, pairs });
                }
            }
            for single in [max - 1, max, max + 1] {
                v.push(LimitCase { ctor, pairs: vec![(0, single)] });
            }
        }
        v.push(LimitCase { ctor, pairs: vec![] });
    }
    v
}

pub fn run(ctx: &Ctx, rep: &mut Report) {
    engine::enumerate(ctx, rep, "limit-edges", limit_edges().into_iter(), check_limits);
    let cases = ctx.share(ctx.tier.pick(180_000, 5_000_000));
    engine::drive(ctx, rep, "random", case_strategy(), cases, check_case);
    let cases = ctx.share(ctx.tier.pick(120_000, 2_000_000));
    engine::drive(ctx, rep, "limits", limit_case(), cases, check_limits);
    if ctx.tier == Tier::Thorough && ctx.shard == 0 {
        engine::one(ctx, rep, "too-many-pairs", &json!({"pairs": "i32::MAX + 1 zero-sized values through new_from_sorted"}), |_| check_too_many_pairs());
    } else if ctx.shard == 0 {
        rep.note("pair counts above i32::MAX (an 8 GiB vector) are only exercised in the thorough tier");
    }
}

fn replay(_ctx: &Ctx, group: &str, case: &Value) -> CaseResult {
    match group {
        "limits" | "limit-edges" => check_limits(&parse_case::<LimitCase>(case)?),
        "too-many-pairs" => check_too_many_pairs(),
        _ => check_case(&parse_case::<Case>(case)?),
    }
}

pub fn def() -> PropDef {
    PropDef {
        id: "C11",
        rule: "random: a case is a list of 0..40 (tag, value) pairs (41..300 leaf-valued pairs in one case out of 11) - tags from a small pool (repeats), named tags and uniform u32; values are &[u8], borrowed/owned Cow<[u8]>, &str, borrowed/owned Cow<str> (lengths 0, 1..5, ~64, ~256, up to 2 KiB), nested MessageWrappers to depth 3 built with any constructor, or a MessageView re-encoded as a value - a constructor (new, new_from_slice, new_from_sorted on sorted or unsorted input) and a sink (OwningIovec, or hcobs::Encoder whose output is decoded by the reference codec). Oracle: emitted bytes equal the reference layout of the stably sorted pairs, rough_tlv_len() equals the emitted length, MessageView accepts and iter/get/get_value/tags/len return the sorted pairs, find returns a value stored under exactly that tag or None iff absent, new_from_sorted rejects exactly the lists with a decreasing tag. limits / limit-edges: values that only claim a length (never encoded) around i32::MAX for single values and totals; accept/reject and rough_tlv_len compared with i128 arithmetic. Non-trivial (random): N <= 1, repeated tags, an empty value or nesting; (limits): a length or total within 3 of i32::MAX. Distinct: hash of the serialised case.",
        assumptions: &["the reference layout (refimpl/tlv_ref.rs) is written from the crate's format documentation and checked against its documented example", "pair counts above i32::MAX only in the thorough tier"],
        exhaustive_note: None,
        shards: |t: Tier| t.pick(8, 16),
        run,
        replay,
    }
}
