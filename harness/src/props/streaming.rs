//! Long streaming runs through Encoder, Decoder and Encoder->Decoder
//! pipelines (C09 lag / prefix observations, C10 footprint observations).
use std::num::NonZeroUsize;

use hcobs::{Decoder, Encoder};
use owning_iovec::{ByteArena, ConsumingIovec};
use proptest::prelude::*;
use serde::{Deserialize, Serialize};

use super::codec::ENCODER_LAG_BOUND;
use crate::engine::bytespec::{ByteSpec, Seg};
use crate::engine::Fail;

#[derive(Clone, Copy, Debug, PartialEq, Eq, Hash, Serialize, Deserialize)]
pub enum Kind {
    Encoder,
    Decoder,
    Pipeline,
}

#[derive(Clone, Copy, Debug, PartialEq, Eq, Hash, Serialize, Deserialize)]
pub enum DrainHow {
    /// consume every consumable slice
    AllSlices,
    /// advance_slices by everything consumable
    AllBytes,
    /// advance_slices by k/255 of what is consumable
    BytesFrac(u8),
    /// consume up to k slices
    Slices(u8),
}

#[derive(Clone, Debug, PartialEq, Eq, Hash, Serialize, Deserialize)]
pub struct StreamCase {
    pub kind: Kind,
    /// 0: stuff-free, 1: FE/FD dense, 2: mixture, 3: mostly stuff-free with rare stuff sequences
    pub shape: u8,
    /// Plain length in KiB.
    pub kib: u32,
    /// Seed of the piece-size / method plan.
    pub plan_seed: u32,
    /// Largest piece, in bytes (at most 1 MiB).
    pub max_piece: u32,
    /// Drain after every `every`-th call.
    pub every: u8,
    pub how: DrainHow,
    /// When not zero, `arena().ensure_capacity(hint)` is called on the codec's arena before every
    /// feeding call (a caller that keeps hinting how much it is about to write).
    #[serde(default)]
    pub hint: u32,
}

pub fn stream_case(min_kib: u32, max_kib: u32) -> impl Strategy<Value = StreamCase> {
    (
        prop_oneof![Just(Kind::Encoder), Just(Kind::Decoder), Just(Kind::Pipeline)],
        0u8..4,
        min_kib..=max_kib,
        any::<u32>(),
        prop_oneof![Just(4096u32), Just(65_536u32), Just(300_000u32), Just(524_288u32), Just(1u32 << 20)],
        prop_oneof![4 => Just(1u8), 1 => 2u8..5],
        prop_oneof![
            3 => Just(DrainHow::AllSlices),
            3 => Just(DrainHow::AllBytes),
            2 => (1u8..=255).prop_map(DrainHow::BytesFrac),
            1 => (1u8..6).prop_map(DrainHow::Slices),
        ],
        prop_oneof![6 => Just(0u32), 1 => 1u32..300, 1 => Just(2048u32), 1 => Just(4096u32), 1 => 60_000u32..70_000],
    )
        .prop_map(|(kind, shape, kib, plan_seed, max_piece, every, how, hint)| StreamCase {
            kind,
            shape,
            kib,
            plan_seed,
            max_piece,
            every,
            how,
            hint,
        })
}

pub fn plain_of(case: &StreamCase) -> Vec<u8> {
    let len = case.kib as usize * 1024;
    let spec = match case.shape {
        0 => ByteSpec(vec![Seg::Noise { seed: case.plan_seed, len: len as u32, alphabet: 0 }]).bytes().into_iter().map(|b| if b == 0xFE { 0x7E } else { b }).collect(),
        1 => ByteSpec(vec![Seg::Noise { seed: case.plan_seed, len: len as u32, alphabet: 2 }]).bytes(),
        2 => ByteSpec(vec![Seg::Noise { seed: case.plan_seed, len: len as u32, alphabet: 1 }]).bytes(),
        _ => {
            let mut v: Vec<u8> = vec![0x55; len];
            let mut at = 70_000usize;
            while at + 2 < len {
                v[at] = 0xFE;
                v[at + 1] = 0xFD;
                at += 70_000 + (at % 9973);
            }
            v
        }
    };
    spec
}

#[derive(Clone, Copy)]
enum How {
    Borrow,
    Copy,
    Anchored,
    Read,
}

struct Plan {
    st: u64,
    max_piece: usize,
    left_in_phase: usize,
    lo: usize,
    hi: usize,
    how: How,
}

impl Plan {
    fn new(seed: u32, max_piece: u32) -> Self {
        Plan {
            st: seed as u64 ^ 0xabcdef12345,
            max_piece: (max_piece as usize).clamp(1, 1 << 20),
            left_in_phase: 0,
            lo: 1,
            hi: 1,
            how: How::Copy,
        }
    }

    fn rnd(&mut self) -> u64 {
        self.st = self.st.wrapping_add(0x9e3779b97f4a7c15);
        let mut z = self.st;
        z = (z ^ (z >> 30)).wrapping_mul(0xbf58476d1ce4e5b9);
        z = (z ^ (z >> 27)).wrapping_mul(0x94d049bb133111eb);
        z ^ (z >> 31)
    }

    fn next(&mut self) -> (usize, How) {
        if self.left_in_phase == 0 {
            let class = self.rnd() % 8;
            let (lo, hi, count) = match class {
                0 => (1, 16, 40),
                1 => (100, 1000, 60),
                2 | 3 => (4096, 65_536, 40),
                4 => (65_536, 524_288, 12),
                // Exactly the largest piece allowed (with max_piece = 1 MiB: requests of exactly 2^20 bytes).
                5 => (self.max_piece, self.max_piece, 6),
                6 => (252, 260, 30),
                _ => (63_990, 64_030, 10),
            };
            self.lo = lo.min(self.max_piece);
            self.hi = hi.min(self.max_piece).max(self.lo);
            self.left_in_phase = 1 + (self.rnd() as usize % count);
            self.how = match self.rnd() % 4 {
                0 => How::Borrow,
                1 => How::Copy,
                2 => How::Anchored,
                _ => How::Read,
            };
        }
        self.left_in_phase -= 1;
        let size = self.lo + (self.rnd() as usize % (self.hi - self.lo + 1));
        (size, self.how)
    }
}

#[derive(Clone, Debug, Default)]
pub struct StreamStats {
    pub calls: usize,
    pub max_encoder_lag: usize,
    pub drains: usize,
    pub mid_slice_drains: usize,
    pub peak_live_first_half: usize,
    pub peak_live_second_half: usize,
    pub peak_live_chunks: usize,
    pub baseline_live: usize,
    pub largest_piece: usize,
    pub output_len: usize,
}

/// Drains per the policy, appending what was removed to `sink`; returns whether it stopped mid-slice.
fn drain(mut consumer: ConsumingIovec<'_>, how: DrainHow, sink: &mut Vec<u8>, what: &str) -> Result<bool, Fail> {
    let before = consumer.total_size();
    let start = sink.len();
    let mut mid = false;
    {
        let prefix = consumer.stable_prefix();
        let avail: usize = prefix.iter().map(|s| s.len()).sum();
        let (slices, bytes) = match how {
            DrainHow::AllSlices => (Some(prefix.len()), avail),
            DrainHow::Slices(k) => {
                let n = (k as usize).min(prefix.len());
                (Some(k as usize), prefix[..n].iter().map(|s| s.len()).sum())
            }
            DrainHow::AllBytes => (None, avail),
            DrainHow::BytesFrac(f) => (None, avail * f as usize / 255),
        };
        let mut left = bytes;
        for s in prefix {
            if left == 0 {
                break;
            }
            let take = left.min(s.len());
            if s.is_empty() {
                return Err(Fail::new(format!("{what}:empty-slice"), format!("{what}: an exposed slice is empty")));
            }
            sink.extend_from_slice(&s[..take]);
            mid = take < s.len();
            left -= take;
        }
        match slices {
            Some(n) => {
                let want = n.min(prefix.len());
                let got = consumer.consume(n);
                if got != want {
                    return Err(Fail::new(format!("{what}:consume-count"), format!("{what}: consume({n}) returned {got}, {want} slices were consumable")));
                }
            }
            None => {
                let got = consumer.advance_slices(bytes);
                if got != bytes {
                    return Err(Fail::new(format!("{what}:advance-count"), format!("{what}: advance_slices({bytes}) returned {got}")));
                }
            }
        }
    }
    let removed = sink.len() - start;
    let after = consumer.total_size();
    if before - after != removed {
        return Err(Fail::new(format!("{what}:size-accounting"), format!("{what}: total_size went from {before} to {after} after removing {removed} bytes")));
    }
    Ok(mid)
}

struct LiveTracker {
    half_at: usize,
    stats_first: usize,
    stats_second: usize,
    chunks: usize,
}

impl LiveTracker {
    fn sample(&mut self, progress: usize, baseline: usize) {
        let live = ByteArena::num_live_bytes().saturating_sub(baseline);
        if progress <= self.half_at {
            self.stats_first = self.stats_first.max(live);
        } else {
            self.stats_second = self.stats_second.max(live);
        }
        self.chunks = self.chunks.max(ByteArena::num_live_chunks());
    }
}

/// After a call on an encoder: the visible bytes extend what was seen, and the lag is bounded.
fn observe_encoder(consumer: &ConsumingIovec<'_>, drained: &[u8], seen_tail: &mut Vec<u8>, stats: &mut StreamStats) -> Result<(), Fail> {
    // `seen_tail` holds the bytes observed beyond `drained` at the previous observation.
    let mut off = 0usize;
    for s in consumer.stable_prefix() {
        let overlap = seen_tail.len().saturating_sub(off).min(s.len());
        if s[..overlap] != seen_tail[off..off + overlap] {
            return Err(Fail::new("encoder:observed-byte-changed", format!("encoder: bytes at offset {} changed after having been observable", drained.len() + off)));
        }
        seen_tail.extend_from_slice(&s[overlap..]);
        off += s.len();
    }
    if off < seen_tail.len() {
        return Err(Fail::new("encoder:visible-shrank", "encoder: fewer bytes are consumable than before although nothing was drained"));
    }
    let lag = consumer.total_size() - off;
    stats.max_encoder_lag = stats.max_encoder_lag.max(lag);
    if lag > ENCODER_LAG_BOUND {
        return Err(Fail::new("encoder:lag", format!("{lag} bytes produced but not consumable after call #{} (bound {ENCODER_LAG_BOUND})", stats.calls)));
    }
    Ok(())
}

fn first_diff(a: &[u8], b: &[u8]) -> usize {
    a.iter().zip(b.iter()).position(|(x, y)| x != y).unwrap_or(a.len().min(b.len()))
}

/// Streams `plain` through an Encoder; returns the complete output.
fn encode_stream<'a>(
    case: &StreamCase,
    plain: &'a [u8],
    stats: &mut StreamStats,
    tracker: &mut LiveTracker,
    mut downstream: impl FnMut(&[u8]) -> Result<(), Fail>,
) -> Result<Vec<u8>, Fail> {
    let mut plan = Plan::new(case.plan_seed, case.max_piece);
    let mut encoder: Encoder<'a> = Encoder::new();
    let mut output: Vec<u8> = Vec::with_capacity(plain.len() + plain.len() / 1000 + 16);
    let mut seen_tail: Vec<u8> = vec![];
    let mut pos = 0usize;
    while pos < plain.len() {
        let (size, how) = plan.next();
        let end = (pos + size).min(plain.len());
        let piece = &plain[pos..end];
        stats.largest_piece = stats.largest_piece.max(piece.len());
        if case.hint > 0 {
            encoder.consumer().arena().ensure_capacity(case.hint as usize);
        }
        match how {
            How::Borrow => encoder.encode(piece),
            How::Copy => encoder.encode_copy(piece),
            How::Anchored => {
                let mut src = piece;
                let a = encoder
                    .read_n(&mut src, piece.len(), NonZeroUsize::new(2).unwrap())
                    .map_err(|e| Fail::new("encode:read_n-error", e.to_string()))?;
                encoder.encode_anchored(a);
            }
            How::Read => {
                let mut src = piece;
                let n = encoder
                    .encode_read(&mut src, piece.len(), NonZeroUsize::new(2).unwrap())
                    .map_err(|e| Fail::new("encode:read-error", e.to_string()))?;
                if n != piece.len() {
                    return Err(Fail::new("encode:read-count", format!("encode_read returned {n} for a {}-byte slice reader", piece.len())));
                }
            }
        }
        pos = end;
        stats.calls += 1;
        observe_encoder(&encoder.consumer(), &output, &mut seen_tail, stats)?;
        if stats.calls % case.every as usize == 0 {
            let start = output.len();
            let mid = drain(encoder.consumer(), case.how, &mut output, "encoder")?;
            stats.drains += 1;
            stats.mid_slice_drains += mid as usize;
            let removed = output.len() - start;
            if seen_tail[..removed] != output[start..] {
                return Err(Fail::new("encoder:drained-not-prefix", "encoder: drained bytes differ from what was observable"));
            }
            seen_tail.drain(..removed);
            downstream(&output[start..])?;
        }
        tracker.sample(pos, stats.baseline_live);
    }
    let start = output.len();
    let iovec = encoder.finish();
    let tail = iovec.flatten().map_err(|_| Fail::new("encoder:finish-pending", "finish() left a placeholder pending"))?;
    if tail.len() < seen_tail.len() || tail[..seen_tail.len()] != seen_tail[..] {
        return Err(Fail::new("encoder:not-prefix", "bytes observable before finish are not a prefix of what finish returns"));
    }
    output.extend_from_slice(&tail);
    drop(iovec);
    downstream(&output[start..])?;
    Ok(output)
}

/// Streaming decoder fed with arbitrary pieces of an encoded stream.
struct DecodeSink<'a> {
    decoder: Decoder<'a>,
    plan: Plan,
    decoded: Vec<u8>,
    every: usize,
    how: DrainHow,
    calls: usize,
    hint: u32,
}

impl<'a> DecodeSink<'a> {
    fn feed(&mut self, piece: &[u8], stats: &mut StreamStats) -> Result<(), Fail> {
        // The pieces arrive as copies (they are views into a growing vector).
        let mut pos = 0;
        while pos < piece.len() {
            let (size, how) = self.plan.next();
            let end = (pos + size).min(piece.len());
            let part = &piece[pos..end];
            if self.hint > 0 {
                self.decoder.consumer().arena().ensure_capacity(self.hint as usize);
            }
            let r = match how {
                How::Borrow | How::Copy => self.decoder.decode_copy(part).map_err(|e| e.to_string()),
                How::Anchored => {
                    let mut src = part;
                    let a = self
                        .decoder
                        .read_n(&mut src, part.len(), NonZeroUsize::new(2).unwrap())
                        .map_err(|e| Fail::new("decode:read_n-error", e.to_string()))?;
                    self.decoder.decode_anchored(a).map_err(|e| e.to_string())
                }
                How::Read => {
                    let mut src = part;
                    self.decoder.decode_read(&mut src, part.len(), NonZeroUsize::new(2).unwrap()).map(|_| ()).map_err(|e| e.to_string())
                }
            };
            r.map_err(|e| Fail::new("decoder:rejected-valid-stream", format!("decoder rejected a valid stream: {e}")))?;
            pos = end;
            self.calls += 1;
            stats.calls += 1;
            {
                let consumer = self.decoder.consumer();
                let stable: usize = consumer.stable_prefix().iter().map(|s| s.len()).sum();
                if consumer.total_size() != stable || consumer.iovs().is_err() {
                    return Err(Fail::new("decoder:lag", format!("decoder holds {} produced but unconsumable bytes", consumer.total_size() - stable)));
                }
            }
            if self.calls % self.every == 0 {
                let mid = drain(self.decoder.consumer(), self.how, &mut self.decoded, "decoder")?;
                stats.drains += 1;
                stats.mid_slice_drains += mid as usize;
            }
        }
        Ok(())
    }
}

/// Runs one streaming case.  `plain` must be `plain_of(case)`.
pub fn run_stream(case: &StreamCase, plain: &[u8]) -> Result<StreamStats, Fail> {
    let mut stats = StreamStats {
        baseline_live: ByteArena::num_live_bytes(),
        ..Default::default()
    };
    let mut tracker = LiveTracker {
        half_at: plain.len() / 2,
        stats_first: 0,
        stats_second: 0,
        chunks: 0,
    };
    match case.kind {
        Kind::Encoder => {
            let output = encode_stream(case, plain, &mut stats, &mut tracker, |_| Ok(()))?;
            let single = super::codec::encode_once(plain);
            if output != single {
                let at = first_diff(&output, &single);
                return Err(Fail::new("encoder:stream-output", format!("drained ++ finish() differs from the complete output at offset {at} ({} vs {} bytes)", output.len(), single.len())));
            }
            stats.output_len = output.len();
        }
        Kind::Decoder => {
            let encoded = super::codec::encode_once(plain);
            // Borrowing decode calls need the stream to outlive the decoder.
            let mut plan = Plan::new(case.plan_seed ^ 0x5a5a, case.max_piece);
            let mut decoder: Decoder<'_> = Decoder::new();
            let mut decoded: Vec<u8> = Vec::with_capacity(plain.len());
            let mut pos = 0usize;
            tracker.half_at = encoded.len() / 2;
            while pos < encoded.len() {
                let (size, how) = plan.next();
                let end = (pos + size).min(encoded.len());
                let part = &encoded[pos..end];
                stats.largest_piece = stats.largest_piece.max(part.len());
                if case.hint > 0 {
                    decoder.consumer().arena().ensure_capacity(case.hint as usize);
                }
                let r = match how {
                    How::Borrow => decoder.decode(part).map_err(|e| e.to_string()),
                    How::Copy => decoder.decode_copy(part).map_err(|e| e.to_string()),
                    How::Anchored => {
                        let mut src = part;
                        let a = decoder.read_n(&mut src, part.len(), NonZeroUsize::new(2).unwrap()).map_err(|e| Fail::new("decode:read_n-error", e.to_string()))?;
                        decoder.decode_anchored(a).map_err(|e| e.to_string())
                    }
                    How::Read => {
                        let mut src = part;
                        decoder.decode_read(&mut src, part.len(), NonZeroUsize::new(2).unwrap()).map(|_| ()).map_err(|e| e.to_string())
                    }
                };
                r.map_err(|e| Fail::new("decoder:rejected-valid-stream", format!("decoder rejected a valid stream at offset {pos}: {e}")))?;
                pos = end;
                stats.calls += 1;
                {
                    let consumer = decoder.consumer();
                    let mut off = decoded.len();
                    for s in consumer.stable_prefix() {
                        if off + s.len() > plain.len() || plain[off..off + s.len()] != **s {
                            return Err(Fail::new("decoder:not-prefix", format!("decoder: consumable bytes at offset {off} are not a prefix of the decoded message")));
                        }
                        off += s.len();
                    }
                    if consumer.total_size() != off - decoded.len() || consumer.iovs().is_err() {
                        return Err(Fail::new("decoder:lag", format!("decoder holds {} produced but unconsumable bytes", consumer.total_size() - (off - decoded.len()))));
                    }
                }
                if stats.calls % case.every as usize == 0 {
                    let mid = drain(decoder.consumer(), case.how, &mut decoded, "decoder")?;
                    stats.drains += 1;
                    stats.mid_slice_drains += mid as usize;
                }
                tracker.sample(pos, stats.baseline_live);
            }
            let iovec = decoder.finish().map_err(|e| Fail::new("decoder:rejected-valid-stream", format!("finish rejected a valid stream: {e}")))?;
            decoded.extend_from_slice(&iovec.flatten().map_err(|_| Fail::new("decoder:finish-pending", "placeholder pending after finish"))?);
            drop(iovec);
            if decoded != plain {
                let at = first_diff(&decoded, plain);
                return Err(Fail::new("decoder:stream-output", format!("drained ++ finish() differs from the original message at offset {at}")));
            }
            stats.output_len = decoded.len();
        }
        Kind::Pipeline => {
            let mut sink = DecodeSink {
                decoder: Decoder::new(),
                plan: Plan::new(case.plan_seed ^ 0x77, case.max_piece),
                decoded: Vec::with_capacity(plain.len()),
                every: case.every as usize,
                how: case.how,
                calls: 0,
                hint: case.hint,
            };
            let mut sub = StreamStats::default();
            let output = {
                let sink_ref = &mut sink;
                let sub_ref = &mut sub;
                encode_stream(case, plain, &mut stats, &mut tracker, move |bytes| sink_ref.feed(bytes, sub_ref))?
            };
            stats.calls += sub.calls;
            stats.drains += sub.drains;
            stats.mid_slice_drains += sub.mid_slice_drains;
            let iovec = sink.decoder.finish().map_err(|e| Fail::new("decoder:rejected-valid-stream", format!("finish rejected the encoder's stream: {e}")))?;
            sink.decoded.extend_from_slice(&iovec.flatten().map_err(|_| Fail::new("decoder:finish-pending", "placeholder pending after finish"))?);
            drop(iovec);
            if sink.decoded != plain {
                let at = first_diff(&sink.decoded, plain);
                return Err(Fail::new("pipeline:output", format!("encoder->decoder pipeline output differs from the input at offset {at}")));
            }
            stats.output_len = output.len();
        }
    }
    stats.peak_live_first_half = tracker.stats_first;
    stats.peak_live_second_half = tracker.stats_second;
    stats.peak_live_chunks = tracker.chunks;
    Ok(stats)
}
