//! C06 — StreamReader returns exactly the valid delimited records of any byte stream.
use hcobs::StreamReader;
use proptest::prelude::*;
use serde::{Deserialize, Serialize};
use serde_json::Value;

use super::stream_in::{self, CyclicReader, Delivery, StreamSpec};
use super::{parse_case, PropDef};
use crate::engine::bytespec::{show, ByteSpec, Cut, Seg};
use crate::engine::{self, CaseResult, Ctx, Fail, Outcome, Report, Tier};
use crate::refimpl::hcobs_ref::{self, LIMIT_FIRST, LIMIT_LATER};

#[derive(Clone, Debug, PartialEq, Eq, Hash, Serialize, Deserialize)]
pub struct Case {
    pub stream: StreamSpec,
    pub delivery: Delivery,
    /// `None`: no size limit; `Some((which, delta))`: decoded size of the
    /// `which`-th valid record plus `delta - 1`.
    pub max_size: Option<(u8, u8)>,
    /// `None`: no offset limit; `Some((which, delta))`: start of the
    /// `which`-th non-empty segment plus `delta - 1`.
    pub limit: Option<(u8, u8)>,
    /// Arena action applied (through the returned record's `arena()`) after record `i`.
    #[serde(default)]
    pub nudges: Vec<super::codec::Nudge>,
}

struct Segment {
    start: usize,
    end: usize,
    decoded: Option<Vec<u8>>,
}

pub fn check_case(case: &Case) -> CaseResult {
    // Released arena chunks stay mapped and poisoned for the duration of the case, so a
    // record that points into released memory reads 0xFC bytes instead of undefined contents.
    super::iovec_sm::with_quarantine(|| check_case_inner(case))
}

fn check_case_inner(case: &Case) -> CaseResult {
    let stream = case.stream.bytes();
    let (ranges, sentinel_positions) = hcobs_ref::split_stream(&stream);
    let segments: Vec<Segment> = ranges
        .iter()
        .filter(|(s, e)| e > s)
        .map(|&(start, end)| Segment {
            start,
            end,
            decoded: hcobs_ref::decode(&stream[start..end], LIMIT_FIRST, LIMIT_LATER).ok(),
        })
        .collect();
    let valid: Vec<&Segment> = segments.iter().filter(|s| s.decoded.is_some()).collect();
    let max_size = match case.max_size {
        None => usize::MAX,
        Some((which, delta)) => {
            if valid.is_empty() {
                delta as usize
            } else {
                let seg = valid[(which as usize * valid.len()) >> 8];
                (seg.decoded.as_ref().unwrap().len() + delta as usize).saturating_sub(1)
            }
        }
    };
    let limit: Option<u64> = case.limit.map(|(which, delta)| {
        if segments.is_empty() {
            delta as u64
        } else {
            let seg = &segments[(which as usize * segments.len()) >> 8];
            ((seg.start + delta as usize).saturating_sub(1)) as u64
        }
    });

    // Reference answer.
    let mut expected: Vec<(&[u8], std::ops::Range<u64>)> = vec![];
    let mut stopped_by_limit = false;
    let mut skipped_between = 0usize;
    let mut interleaved = false;
    for seg in &segments {
        if let Some(l) = limit {
            if seg.start as u64 >= l {
                stopped_by_limit = true;
                break;
            }
        }
        match &seg.decoded {
            Some(d) if d.len() <= max_size => {
                if skipped_between > 0 && !expected.is_empty() {
                    interleaved = true;
                }
                expected.push((d, seg.start as u64..seg.end as u64));
                skipped_between = 0;
            }
            _ => skipped_between += 1,
        }
    }

    let block = case.delivery.block_size();
    let small_block = case.delivery.any_block_below_2();
    let mut calls = 0usize;
    let mut next_block = || {
        calls += 1;
        case.delivery.block_size_at(calls - 1)
    };
    let mut reader = CyclicReader::new(&stream, &case.delivery);
    let mut sr = StreamReader::new();
    let judge = StreamReader::chunk_judge(max_size, limit);
    let describe = |i: usize| format!("record #{i} (block size {block:?}, max size {max_size}, limit {limit:?}, stream {})", show(&stream));
    // The reader is `Clone`: before one generated record it is forked together with the
    // underlying reader's position; the copy must go on to return the same records.
    let fork_at = (stream.len() + case.delivery.script.len()) % 4;
    let mut fork: Option<(StreamReader, CyclicReader<'_>)> = None;
    for (i, (want_bytes, want_range)) in expected.iter().enumerate() {
        if i == fork_at {
            fork = Some((sr.clone(), reader.clone()));
        }
        let got = sr
            .next_record_bytes(&mut reader, &judge, next_block())
            .map_err(|e| Fail::new("reader:io-error", format!("next_record_bytes failed although the reader only interrupts: {e}")))?;
        let Some((iovec, range)) = got else {
            return Err(Fail::new(
                if small_block { "reader:missing-record:block<2" } else { "reader:missing-record" },
                format!("end of stream instead of {}: expected {} bytes at {want_range:?}", describe(i), want_bytes.len()),
            ));
        };
        let bytes = iovec.flatten().map_err(|_| Fail::new("reader:pending-placeholder", "returned record has a placeholder pending"))?;
        if iovec.total_size() != bytes.len() {
            return Err(Fail::new("reader:size-accounting", "total_size of the returned record differs from its contents"));
        }
        if bytes != *want_bytes || range != *want_range {
            return Err(Fail::new(
                if small_block { "reader:wrong-record:block<2" } else { "reader:wrong-record" },
                format!("{}: got {} at {range:?}, expected {} at {want_range:?}", describe(i), show(&bytes), show(want_bytes)),
            ));
        }
        if !case.nudges.is_empty() {
            super::codec::apply_nudge(iovec.arena(), case.nudges[i % case.nudges.len()]);
        }
        // The delimiter that ended this record (if any) is the last one read.
        let want_last = if (range.end as usize) < stream.len() {
            Some(range.end)
        } else {
            sentinel_positions.last().map(|p| *p as u64)
        };
        if let Some(w) = want_last {
            if sr.last_sentinel_offset() != w {
                return Err(Fail::new("reader:last-sentinel-offset", format!("{}: last_sentinel_offset() is {}, expected {w}", describe(i), sr.last_sentinel_offset())));
            }
        }
    }
    for extra in 0..3 {
        match sr.next_record_bytes(&mut reader, &judge, next_block()) {
            Ok(None) => {}
            Ok(Some((iovec, range))) => {
                let bytes = iovec.flatten().unwrap_or_default();
                return Err(Fail::new(
                    if small_block { "reader:extra-record:block<2" } else { "reader:extra-record" },
                    format!("after the {} expected records (call +{extra}) got another one: {} at {range:?} (block size {block:?}, max size {max_size}, limit {limit:?}, stream {})", expected.len(), show(&bytes), show(&stream)),
                ));
            }
            Err(e) => return Err(Fail::new("reader:io-error", format!("next_record_bytes failed at end of stream: {e}"))),
        }
    }
    // With an offset limit the judge may also stop at a delimiter that ends at or
    // after the limit, before any further segment: only without a limit must the
    // whole stream have been read.
    if limit.is_none() {
        if reader.pos != stream.len() {
            return Err(Fail::new("reader:early-eof", format!("end of stream reported with {} bytes unread", stream.len() - reader.pos)));
        }
        if let Some(p) = sentinel_positions.last() {
            if sr.last_sentinel_offset() != *p as u64 {
                return Err(Fail::new("reader:last-sentinel-offset", format!("at end of stream last_sentinel_offset() is {}, expected {p}", sr.last_sentinel_offset())));
            }
        }
    }
    if let Some((mut copy, mut copy_reader)) = fork {
        for (j, (want_bytes, want_range)) in expected.iter().enumerate().skip(fork_at) {
            let got = copy
                .next_record_bytes(&mut copy_reader, &judge, block)
                .map_err(|e| Fail::new("reader:io-error", format!("next_record_bytes on a clone failed: {e}")))?;
            let same = match &got {
                Some((iovec, range)) => iovec.flatten().map(|b| b[..] == **want_bytes).unwrap_or(false) && range == want_range,
                None => false,
            };
            if !same {
                return Err(Fail::new(
                    "reader:clone-diverges",
                    format!(
                        "a clone taken before record #{fork_at} returns {:?} as record #{j}; the original returned {} at {want_range:?}",
                        got.as_ref().map(|(io, r)| (io.total_size(), r.clone())),
                        show(want_bytes)
                    ),
                ));
            }
        }
        if let Ok(Some((io, r))) = copy.next_record_bytes(&mut copy_reader, &judge, block) {
            return Err(Fail::new("reader:clone-diverges", format!("a clone taken before record #{fork_at} returns an extra record of {} bytes at {r:?}", io.total_size())));
        }
    }
    // One judge, several streams (a judge made once and used for every file): the same judge
    // object now reads a second stream - small valid records, with a valid one at every offset
    // where the first stream had a segment - through a fresh StreamReader.
    {
        let mut second = vec![];
        let mut starts: Vec<usize> = segments.iter().map(|s| s.start).collect();
        starts.push(stream.len() + 2);
        for (k, at) in starts.iter().enumerate() {
            // Pad up to `at` with delimiters (and one filler record when the gap is odd), then a record.
            while second.len() + 2 <= *at {
                if (*at - second.len()) % 2 == 1 && *at - second.len() >= 5 {
                    second.extend_from_slice(&[0x01, 0x70]); // a one-byte record "p"
                    second.push(0xFE);
                    second.push(0xFD);
                    continue;
                }
                second.extend_from_slice(&[0xFE, 0xFD]);
            }
            if second.len() == *at {
                second.extend_from_slice(&hcobs_ref::encode(&[0x61 + (k % 20) as u8, 0x62], LIMIT_FIRST, LIMIT_LATER));
                second.extend_from_slice(&[0xFE, 0xFD]);
            }
        }
        let (ranges2, _) = hcobs_ref::split_stream(&second);
        let mut expected2: Vec<(Vec<u8>, std::ops::Range<u64>)> = vec![];
        for (a, b) in ranges2.iter().filter(|(a, b)| b > a) {
            if let Some(l) = limit {
                if *a as u64 >= l {
                    break;
                }
            }
            if let Ok(d) = hcobs_ref::decode(&second[*a..*b], LIMIT_FIRST, LIMIT_LATER) {
                if d.len() <= max_size {
                    expected2.push((d, *a as u64..*b as u64));
                }
            }
        }
        let plain_delivery = Delivery { script: vec![], cyclic: false, ..case.delivery.clone() };
        let mut reader2 = CyclicReader::new(&second, &plain_delivery);
        let mut sr2 = StreamReader::new();
        for (j, (want_bytes, want_range)) in expected2.iter().enumerate() {
            let got = sr2.next_record_bytes(&mut reader2, &judge, block).map_err(|e| Fail::new("reader:io-error", e.to_string()))?;
            let same = match &got {
                Some((iovec, range)) => iovec.flatten().map(|b| b == *want_bytes).unwrap_or(false) && range == want_range,
                None => false,
            };
            if !same {
                return Err(Fail::new(
                    "reader:judge-remembers",
                    format!(
                        "the same judge object (max size {max_size}, limit {limit:?}), having read one stream, reads a second one ({}): record #{j} should be {} at {want_range:?}, got {:?}",
                        show(&second),
                        show(want_bytes),
                        got.as_ref().map(|(io, r)| (io.total_size(), r.clone()))
                    ),
                ));
            }
        }
    }
    // A judge of the caller's own: a budget of encoded bytes per record.  It is shown every segment as
    // it is read, invalid ones included ("still passed to the record_judge for early exit"), and the
    // last time it is shown a segment the range covers all of it, so reading must end at the first
    // segment longer than the budget, whatever the segments before it were.  The budget sits at the
    // length of one of the segments -1/0/+1.  (After a Stop nothing more is asked of the reader.)
    let mut budget_stop = false;
    if !segments.is_empty() {
        let pick = &segments[(stream.len() + case.delivery.script.len()) % segments.len()];
        let budget = ((pick.end - pick.start) as u64 + (stream.len() % 3) as u64).saturating_sub(1);
        let budget_judge = |range: std::ops::Range<u64>, _: owning_iovec::ConsumingIovec<'_>| {
            if range.end - range.start > budget {
                hcobs::StreamAction::Stop
            } else {
                hcobs::StreamAction::KeepGoing
            }
        };
        let mut expected3: Vec<(&[u8], std::ops::Range<u64>)> = vec![];
        for seg in &segments {
            if (seg.end - seg.start) as u64 > budget {
                budget_stop = true;
                break;
            }
            if let Some(d) = &seg.decoded {
                expected3.push((d, seg.start as u64..seg.end as u64));
            }
        }
        let mut reader3 = CyclicReader::new(&stream, &case.delivery);
        let mut sr3 = StreamReader::new();
        for j in 0..=expected3.len() {
            let got = sr3.next_record_bytes(&mut reader3, &budget_judge, block).map_err(|e| Fail::new("reader:io-error", e.to_string()))?;
            let same = match (&got, expected3.get(j)) {
                (Some((iovec, range)), Some((want_bytes, want_range))) => iovec.flatten().map(|b| b == *want_bytes).unwrap_or(false) && range == want_range,
                (None, None) => true,
                _ => false,
            };
            if !same {
                return Err(Fail::new(
                    "reader:budget-judge",
                    format!(
                        "a judge that stops at the first segment of more than {budget} encoded bytes (block size {block:?}, stream {}): call #{j} should return {:?}, got {:?}",
                        show(&stream),
                        expected3.get(j).map(|(b, r)| (b.len(), r.clone())),
                        got.as_ref().map(|(io, r)| (io.total_size(), r.clone()))
                    ),
                ));
            }
        }
    }
    let nontrivial = (expected.len() >= 2 && interleaved) || (reader.split_sentinels > 0 && !expected.is_empty());
    Ok(Outcome::new(nontrivial)
        .label_if(interleaved, "valid_records_around_skipped_ones")
        .label_if(budget_stop, "own_judge_stops_on_a_long_segment")
        .label_if(reader.split_sentinels > 0, "FE|FD_split_across_reads")
        .label_if(stopped_by_limit, "stopped_by_limit")
        .label_if(case.max_size.is_some(), "size_limit")
        .label_if(expected.len() >= 3, ">=3_records")
        .label_if(small_block, "block<2")
        .label_if(!case.delivery.blocks.is_empty(), "block_size_changes_between_calls")
        .label_if(reader.interrupts > 0, "eintr")
        .label_if(expected.iter().any(|(b, _)| b.len() > 252), "multi_chunk_record")
        .label_if(expected.iter().any(|(b, _)| b.len() > 64_260), "record>64260")
        .label_if(expected.iter().any(|(b, _)| b.len() > 524_288), "record>512KiB"))
}

/// A reader that now and then reports end of file with bytes left (a log being appended to) and
/// goes on at the next call.  What a record cut in two by such an end of file becomes is not
/// specified, so only what must hold anyway is checked: every returned record is, byte for byte,
/// the decoding of the valid segment its byte range designates; ranges go forward;
/// nothing panics; the whole stream ends up read.
pub fn check_transient_eof(case: &Case) -> CaseResult {
    super::iovec_sm::with_quarantine(|| {
        let stream = case.stream.bytes();
        let mut reader = CyclicReader::new(&stream, &case.delivery);
        let mut sr = StreamReader::new();
        let judge = StreamReader::chunk_judge(usize::MAX, None);
        let mut last_end = 0u64;
        let mut records = 0usize;
        let mut idle = 0usize;
        let mut calls = 0usize;
        let budget = 64 * (stream.len() + 4);
        while idle < 12 || reader.pos < stream.len() {
            calls += 1;
            if calls > budget {
                return Err(Fail::new("reader:no-progress", format!("{calls} next_record_bytes calls for a {}-byte stream, {} bytes read", stream.len(), reader.pos)));
            }
            let block = case.delivery.block_size_at(calls - 1);
            let got = sr
                .next_record_bytes(&mut reader, &judge, block)
                .map_err(|e| Fail::new("reader:io-error", format!("next_record_bytes failed although the reader only interrupts or reports end of file: {e}")))?;
            let Some((iovec, range)) = got else {
                idle += 1;
                continue;
            };
            idle = 0;
            records += 1;
            let bytes = iovec.flatten().map_err(|_| Fail::new("reader:pending-placeholder", "returned record has a placeholder pending"))?;
            let (a, b) = (range.start as usize, range.end as usize);
            if range.start < last_end || a > b || b > stream.len() {
                return Err(Fail::new("reader:range", format!("record #{records} has byte range {range:?} (previous record ended at {last_end}, stream has {} bytes)", stream.len())));
            }
            last_end = range.end;
            let segment = &stream[a..b];
            let decoded = hcobs_ref::decode(segment, LIMIT_FIRST, LIMIT_LATER).ok();
            // (an FE FD cut in two by such an end of file can no longer be told from data: the segment
            // may contain one)
            if decoded.as_deref() != Some(&bytes[..]) {
                return Err(Fail::new(
                    "reader:record-is-not-its-range",
                    format!("record #{records} = {} with byte range {range:?}, but those bytes of the stream are {} (reference decoding: {:?})", show(&bytes), show(segment), decoded.as_deref().map(show)),
                ));
            }
        }
        Ok(Outcome::new(reader.transient_eofs > 0 && records > 0).label_if(reader.transient_eofs > 0, "transient_eof").label_if(records >= 2, ">=2_records"))
    })
}

/// Streams of dozens of records (several arena chunks' worth) read with small blocks.
pub fn long_case_strategy() -> impl Strategy<Value = Case> {
    (
        stream_in::stream_spec(70),
        stream_in::delivery(),
        proptest::option::weighted(0.2, (any::<u8>(), 0u8..3)),
        proptest::option::weighted(0.15, (any::<u8>(), 0u8..3)),
        prop_oneof![Just(2u8), Just(3), Just(4), Just(5), Just(6), Just(7), Just(8), Just(9), Just(12), Just(13), Just(14), Just(15), Just(9), Just(13)],
        prop_oneof![1 => Just(vec![]), 1 => proptest::collection::vec(super::codec::nudge(), 1..5)],
    )
        .prop_map(|(stream, mut delivery, max_size, limit, block, nudges)| {
            delivery.block = block;
            delivery.blocks.clear();
            Case {
                stream,
                delivery,
                max_size,
                limit,
                nudges,
            }
        })
}

/// A few large records (several HCOBS chunks; sometimes more than a default I/O block or
/// than the arena's largest chunk), block sizes >= 64.
pub fn large_case_strategy() -> impl Strategy<Value = Case> {
    (
        stream_in::large_stream_spec(),
        stream_in::delivery(),
        stream_in::large_block(),
        proptest::option::weighted(0.2, (any::<u8>(), 0u8..3)),
        proptest::option::weighted(0.15, (any::<u8>(), 0u8..3)),
        prop_oneof![2 => Just(vec![]), 1 => proptest::collection::vec(super::codec::nudge(), 1..4)],
    )
        .prop_map(|(stream, mut delivery, block, max_size, limit, nudges)| {
            delivery.block = block;
            delivery.blocks.clear();
            Case {
                stream,
                delivery,
                max_size,
                limit,
                nudges,
            }
        })
}

/// Directed layout: valid filler records bring the stream to a chosen alignment, then a
/// record whose encoding ends with a `00 00` final header (a payload of exactly 252 bytes)
/// or a short record is placed so that only its last 1..3 bytes (or nothing, or a bit more)
/// fall into the next I/O block; arena turnovers are forced between records.
pub fn aligned_stream(block: usize, multiple: u8, delta: i8, tail_payload: u16, after: &[(stream_in::Token, u8)]) -> StreamSpec {
    use crate::engine::bytespec::Hex;
    let rec = |n: usize, byte: u8| stream_in::Token::Record(ByteSpec(vec![Seg::Fill { byte, len: n as u32 }]));
    let tail_payload = tail_payload as usize;
    // Encoded length of the aligned record (no stuff sequence inside).
    let enc_len = if tail_payload >= 252 { 1 + 252 + 2 + (tail_payload - 252) } else { 1 + tail_payload };
    // Where the aligned record must start so that its last two bytes are the first of a block.
    let mut target = (multiple as usize + 1) * block.max(2);
    while target < enc_len + 8 {
        target += block.max(2);
    }
    let start = (target as i64 - (enc_len as i64 - 2) + delta as i64).max(3) as usize;
    // Fill [0, start) with valid records of 100 payload bytes (103 stream bytes each) and one adjusted record.
    let mut tokens = vec![];
    let mut left = start;
    while left >= 103 + 3 {
        tokens.push((rec(100, 0x31), 1u8));
        left -= 103;
    }
    if left >= 3 {
        tokens.push((rec(left - 3, 0x32), 1u8));
    } else {
        tokens.push((stream_in::Token::Garbage(Hex(vec![0x11; left])), 0u8));
    }
    tokens.push((rec(tail_payload, 0x41), 1u8));
    tokens.extend(after.iter().cloned());
    StreamSpec {
        leading_sentinels: 0,
        tokens,
        truncate: None,
    }
}

pub fn aligned_case_strategy() -> impl Strategy<Value = Case> {
    (
        prop_oneof![Just(12u8), Just(13), Just(14), Just(15), Just(9), Just(8)],
        0u8..3,
        -4i8..=4,
        prop_oneof![4 => Just(252u16), 2 => Just(504u16), 2 => 65u16..252, 1 => 253u16..400],
        proptest::collection::vec((stream_in_token(), prop_oneof![Just(1u8), Just(2u8)]), 0..3),
        proptest::collection::vec(super::codec::nudge(), 0..4),
        stream_in::delivery(),
    )
        .prop_map(|(block, multiple, delta, tail, after, mut nudges, mut delivery)| {
            delivery.block = block;
            delivery.blocks.clear();
            let b = delivery.block_size().unwrap_or(4096);
            // Mostly flush between records, so that the next block goes to a fresh arena chunk.
            nudges.push(super::codec::Nudge::Flush);
            Case {
                stream: aligned_stream(b, multiple, delta, tail, &after),
                delivery,
                max_size: None,
                limit: None,
                nudges,
            }
        })
}

fn stream_in_token() -> impl Strategy<Value = stream_in::Token> {
    crate::engine::bytespec::small_payload().prop_map(stream_in::Token::Record)
}

pub fn case_strategy() -> impl Strategy<Value = Case> {
    (
        stream_in::stream_spec(7),
        stream_in::delivery(),
        proptest::option::weighted(0.35, (any::<u8>(), 0u8..3)),
        proptest::option::weighted(0.3, (any::<u8>(), 0u8..3)),
        prop_oneof![2 => Just(vec![]), 1 => proptest::collection::vec(super::codec::nudge(), 1..5)],
    )
        .prop_map(|(stream, delivery, max_size, limit, nudges)| Case {
            stream,
            delivery,
            max_size,
            limit,
            nudges,
        })
}

/// Crash-style truncation of a small log at every byte.
fn truncated_logs() -> Vec<Case> {
    let payloads: [&[u8]; 4] = [b"a", b"bc\xFE\xFDd", b"", b"\xFEefg"];
    let mut tokens = vec![];
    for p in payloads {
        tokens.push((stream_in::Token::Record(ByteSpec(vec![Seg::Lit(crate::engine::bytespec::Hex(p.to_vec()))])), 1u8));
    }
    let full = StreamSpec {
        leading_sentinels: 0,
        tokens: tokens.clone(),
        truncate: None,
    }
    .bytes()
    .len();
    let mut out = vec![];
    for at in 0..=full {
        for block in [2u8, 3, 5, 11] {
            out.push(Case {
                stream: StreamSpec {
                    leading_sentinels: 0,
                    tokens: tokens.clone(),
                    truncate: Some(Cut::Abs(at as u32)),
                },
                delivery: Delivery {
                    script: vec![super::codec::ReadStep::Deliver(0), super::codec::ReadStep::Deliver(255)],
                    cyclic: true,
                    block,
                    arena_prep: 0,
                    big_chunk: false,
                    blocks: vec![],
                    two_arenas: false,
                },
                max_size: None,
                limit: None,
                nudges: vec![],
            });
        }
    }
    out
}

pub fn run(ctx: &Ctx, rep: &mut Report) {
    engine::enumerate(ctx, rep, "log-truncated-at-every-byte", truncated_logs().into_iter(), check_case);
    let cases = ctx.share(ctx.tier.pick(240_000, 6_000_000));
    engine::drive(ctx, rep, "random", case_strategy(), cases, check_case);
    let cases = ctx.share(ctx.tier.pick(24_000, 800_000));
    engine::drive(ctx, rep, "long-streams", long_case_strategy(), cases, check_case);
    let cases = ctx.share(ctx.tier.pick(24_000, 1_200_000));
    engine::drive(ctx, rep, "block-aligned-tails", aligned_case_strategy(), cases, check_case);
    let cases = ctx.share(ctx.tier.pick(3_200, 100_000));
    engine::drive(ctx, rep, "large-records", large_case_strategy(), cases, check_case);
    let cases = ctx.share(ctx.tier.pick(30_000, 600_000));
    let tail = (stream_in::stream_spec(7), stream_in::delivery_with_transient_eof()).prop_map(|(stream, delivery)| Case {
        stream,
        delivery,
        max_size: None,
        limit: None,
        nudges: vec![],
    });
    engine::drive(ctx, rep, "transient-eof", tail, cases, check_transient_eof);
}

fn replay(_ctx: &Ctx, group: &str, case: &Value) -> CaseResult {
    if group == "transient-eof" {
        return check_transient_eof(&parse_case::<Case>(case)?);
    }
    check_case(&parse_case::<Case>(case)?)
}

pub fn def() -> PropDef {
    PropDef {
        id: "C06",
        rule: "A case is (stream description, delivery, judge parameters): streams and deliveries as in C08 (records, torn and corrupted records, garbage, lone FE, 0..3 delimiters after each token, whole-stream truncation; scripted short reads / EINTR, block sizes {0,1,2,3,4,5,7,8,64,4096,70000,default}, arena preparation); in one delivery out of four every next_record_bytes call gets its own io_block_size; the standard judge gets a size limit placed at the decoded size of some valid record -1/0/+1 and an offset limit placed at the start of some segment -1/0/+1 (or none). Oracle: split the stream at every FE FD with an independent splitter, keep non-empty segments up to the first one starting at or after the limit, keep those the reference decoder accepts with decoded size <= max; next_record_bytes must return exactly that list of (bytes, byte range), then None three times, without error or panic; last_sentinel_offset is the start of the last delimiter read. A small log truncated at every byte is enumerated; long-streams uses up to 70 tokens (several arena chunks' worth of records) with block sizes 3..4096, so that reads cross arena chunk boundaries in many alignments; block-aligned-tails lays out valid filler records so that a record with a 00 00 final header (252- or 504-byte payload) or a short record ends 0..4 bytes around an I/O block boundary (blocks 64 / 100 / 256 / 1000 / 2048 / 4096), with the arena flushed between records through the returned record's arena(). large-records: 1..4 tokens built on payloads of up to 140000 bytes (one in nine of 0.5..1.3 MB: more than a default I/O block and than the arena's largest chunk), valid, torn or corrupted, block sizes >= 64 and default. transient-eof: the reader now and then returns Ok(0) with bytes left and goes on later; what becomes of a record cut in two that way is not specified, so only this is checked: each returned record is exactly the reference decoding of the segment its byte range designates, ranges go forward, nothing panics, the stream ends up read. Before one generated record the StreamReader is cloned together with the underlying reader's position; the clone must go on to return the same records. The judge object is then used again, by a fresh StreamReader, on a second stream that has a small valid record at every offset where the first stream had a segment: a judge is a function of what it is shown, not of what it has seen. The stream is also read through a judge of the caller's own, a budget of encoded bytes per record placed at the length of one segment -1/0/+1 and answering Stop above it: the records of the valid segments before the first segment longer than the budget, then end of stream. Non-trivial: >= 2 returned records with a skipped (invalid / oversized / empty-payload) segment between two of them, or a read that split an FE|FD pair in a stream with at least one returned record. Distinct: hash of the serialised case.",
        assumptions: &[
            "judges modelled: the standard one (chunk_judge) and a caller-written budget of encoded bytes per record that answers Stop or KeepGoing",
            "readers only deliver short reads and Interrupted errors",
            "the reference decoder of C07 defines validity",
        ],
        exhaustive_note: Some("log-truncated-at-every-byte: every truncation point of one 4-record log x 4 block sizes"),
        shards: |t: Tier| t.pick(8, 16),
        run,
        replay,
    }
}
