//! C08 — StreamChunker tiles the input stream exactly, sentinels never hidden in data.
use hcobs::{Chunk, StreamChunker};
use owning_iovec::ByteArena;
use proptest::prelude::*;
use serde::{Deserialize, Serialize};
use serde_json::Value;

use super::stream_in::{self, CyclicReader, Delivery, StreamSpec};
use super::{parse_case, PropDef};
use crate::engine::bytespec::show;
use crate::engine::{self, CaseResult, Ctx, Fail, Outcome, Report, Tier};
use crate::refimpl::hcobs_ref;

#[derive(Clone, Debug, PartialEq, Eq, Hash, Serialize, Deserialize)]
pub struct Case {
    pub stream: StreamSpec,
    pub delivery: Delivery,
}

pub fn check_case(case: &Case) -> CaseResult {
    let stream = case.stream.bytes();
    let block_at = |call: usize| case.delivery.block_size_at(call).unwrap_or(hcobs::DEFAULT_BLOCK_SIZE);
    let mut block;
    let mut arena = ByteArena::new();
    stream_in::prepare_arena_for(&mut arena, &case.delivery);
    let mut other_arena = ByteArena::new();
    stream_in::prepare_arena_for(&mut other_arena, &case.delivery);
    let mut reader = CyclicReader::new(&stream, &case.delivery);
    let mut chunker = StreamChunker::default();

    let mut q = 0usize; // running position
    let mut prev_data_ended_with_fe = false;
    let mut sentinels = 0usize;
    let mut data_chunks = 0usize;
    // (every transient end of file costs a pump call of its own)
    let eof_steps = case.delivery.script.iter().filter(|s| matches!(s, super::codec::ReadStep::Eof)).count();
    let budget = (2 + 8 * eof_steps) * stream.len() + 16 + 8 * eof_steps;
    let mut pumps = 0usize;
    let mut eofs_seen = 0usize;
    // The chunker is `Clone`: at one generated point it is forked together with the reader's
    // position; the copy, pumped to the end afterwards, must hand out what the original did from there on.
    let fork_at = 1 + (stream.len() + case.delivery.script.len()) % 7;
    let mut fork: Option<(StreamChunker, CyclicReader<'_>, usize)> = None;
    let mut main_chunks: Vec<(u8, u64, Vec<u8>)> = vec![];
    loop {
        if pumps == fork_at {
            fork = Some((chunker.clone(), reader.clone(), main_chunks.len()));
        }
        block = block_at(pumps);
        pumps += 1;
        if pumps > budget {
            return Err(Fail::new("chunker:no-progress", format!("more than {budget} pump calls for a {}-byte stream (block size {block})", stream.len())));
        }
        let eofs_before_pump = reader.transient_eofs;
        let which = if case.delivery.two_arenas && pumps % 2 == 0 { &mut other_arena } else { &mut arena };
        let chunk = chunker
            .pump(which, &mut reader, block)
            .map_err(|e| Fail::new("chunker:io-error", format!("pump failed although the reader only interrupts: {e}")))?;
        main_chunks.push(match &chunk {
            Chunk::Sentinel(o) => (0, *o, vec![]),
            Chunk::Data((o, s)) => (1, *o, s.slice().to_vec()),
            Chunk::Eof => (2, 0, vec![]),
        });
        match chunk {
            Chunk::Sentinel(o) => {
                if o as usize != q + 2 {
                    return Err(Fail::new("chunker:sentinel-offset", format!("Sentinel reported end offset {o} at stream position {q} (block size {block})")));
                }
                if q + 2 > stream.len() || stream[q..q + 2] != [0xFE, 0xFD] {
                    return Err(Fail::new("chunker:phantom-sentinel", format!("Sentinel reported at position {q} where the stream holds {} (block size {block})", show(&stream[q..(q + 2).min(stream.len())]))));
                }
                q += 2;
                sentinels += 1;
                prev_data_ended_with_fe = false;
            }
            Chunk::Data((o, slice)) => {
                let s = slice.slice();
                if s.is_empty() {
                    return Err(Fail::new("chunker:empty-data", format!("empty Data chunk at position {q} (block size {block})")));
                }
                if q + s.len() > stream.len() || stream[q..q + s.len()] != *s {
                    return Err(Fail::new("chunker:data-content", format!("Data chunk at position {q} holds {}, the stream holds {} (block size {block})", show(s), show(&stream[q..(q + s.len()).min(stream.len())]))));
                }
                if o as usize != q + s.len() {
                    return Err(Fail::new("chunker:data-offset", format!("Data chunk of {} bytes at position {q} reported end offset {o} (block size {block})", s.len())));
                }
                if hcobs_ref::contains_stuff(s).is_some() {
                    return Err(Fail::new(
                        if case.delivery.any_block_below_2() { "chunker:sentinel-in-data:block<2" } else { "chunker:sentinel-in-data" },
                        format!("Data chunk at position {q} contains FE FD: {} (block size {block})", show(s)),
                    ));
                }
                if prev_data_ended_with_fe && s[0] == 0xFD {
                    return Err(Fail::new(
                        if case.delivery.any_block_below_2() { "chunker:sentinel-straddles-data:block<2" } else { "chunker:sentinel-straddles-data" },
                        format!("FE FD straddles two consecutive Data chunks at position {} (block size {block})", q - 1),
                    ));
                }
                // (a Data chunk handed out because the reader reported end of file may end with a held-back FE
                // whose FD only arrives later: nothing else can be done with it)
                prev_data_ended_with_fe = *s.last().unwrap() == 0xFE && reader.transient_eofs == eofs_before_pump;
                q += s.len();
                data_chunks += 1;
            }
            Chunk::Eof if reader.pos < stream.len() && reader.transient_eofs > eofs_seen => {
                // The reader said "end of file" with bytes left: the chunker passes that on and
                // carries on at the next call.  A held-back FE had to be flushed first, so the next
                // Data chunk may start with the FD that belongs to it.
                eofs_seen = reader.transient_eofs;
                if q != reader.pos {
                    return Err(Fail::new("chunker:eof-position", format!("Eof reported at position {q} while the reader has delivered {} bytes", reader.pos)));
                }
                prev_data_ended_with_fe = false;
            }
            Chunk::Eof => {
                if q != stream.len() || reader.pos != stream.len() {
                    return Err(Fail::new("chunker:early-eof", format!("Eof at position {q} of a {}-byte stream (reader at {}, block size {block})", stream.len(), reader.pos)));
                }
                break;
            }
        }
    }
    if let Some((mut copy, mut copy_reader, from)) = fork {
        let mut copy_arena = ByteArena::new();
        let mut copy_chunks: Vec<(u8, u64, Vec<u8>)> = vec![];
        let mut n = fork_at;
        while copy_chunks.len() <= main_chunks.len() - from {
            let c = copy
                .pump(&mut copy_arena, &mut copy_reader, block_at(n))
                .map_err(|e| Fail::new("chunker:io-error", format!("pump on a clone failed: {e}")))?;
            n += 1;
            let done = matches!(c, Chunk::Eof) && copy_reader.pos == stream.len();
            copy_chunks.push(match &c {
                Chunk::Sentinel(o) => (0, *o, vec![]),
                Chunk::Data((o, s)) => (1, *o, s.slice().to_vec()),
                Chunk::Eof => (2, 0, vec![]),
            });
            if done {
                break;
            }
        }
        if copy_chunks[..] != main_chunks[from..] {
            let at = copy_chunks.iter().zip(main_chunks[from..].iter()).position(|(a, b)| a != b).unwrap_or(copy_chunks.len().min(main_chunks.len() - from));
            return Err(Fail::new(
                "chunker:clone-diverges",
                format!(
                    "a clone taken before pump #{fork_at} hands out {:?} as its chunk #{at}, the original handed out {:?} (block size {block})",
                    copy_chunks.get(at).map(|c| (c.0, c.1, show(&c.2))),
                    main_chunks.get(from + at).map(|c| (c.0, c.1, show(&c.2)))
                ),
            ));
        }
    }
    // Eof is sticky.
    for _ in 0..2 {
        match chunker.pump(&mut arena, &mut reader, block_at(pumps)) {
            Ok(Chunk::Eof) => {}
            Ok(other) => return Err(Fail::new("chunker:after-eof", format!("pump after Eof returned {other:?}"))),
            Err(e) => return Err(Fail::new("chunker:io-error", format!("pump after Eof failed: {e}"))),
        }
    }
    let expected_sentinels = hcobs_ref::split_stream(&stream).1.len();
    if reader.transient_eofs > 0 {
        // An FE FD cut in two by a transient end of file is two Data chunks, not a Sentinel.
        if sentinels > expected_sentinels {
            return Err(Fail::new("chunker:sentinel-count", format!("{sentinels} Sentinel chunks for {expected_sentinels} FE FD occurrences")));
        }
    } else if sentinels != expected_sentinels {
        return Err(Fail::new("chunker:sentinel-count", format!("{sentinels} Sentinel chunks for {expected_sentinels} FE FD occurrences")));
    }
    Ok(Outcome::new(sentinels > 0 && reader.split_sentinels > 0)
        .label_if(reader.split_sentinels > 0, "FE|FD_split_across_reads")
        .label_if(sentinels > 0, "has_sentinel")
        .label_if(reader.interrupts > 0, "eintr")
        .label_if(case.delivery.any_block_below_2(), "block<2")
        .label_if(!case.delivery.blocks.is_empty(), "block_size_changes_between_calls")
        .label_if(case.delivery.two_arenas, "two_arenas_alternating")
        .label_if(reader.transient_eofs > 0, "transient_eof")
        .label_if(block_at(0) >= 4096, "block>=4096")
        .label_if(data_chunks >= 4, ">=4_data_chunks")
        .label_if(stream.len() > 64_260, "stream>64260")
        .label_if(stream.len() > 1 << 20, "stream>1MiB")
        .label_if(case.delivery.arena_prep >= 2, "nearly_full_arena_chunk"))
}

pub fn case_strategy() -> impl Strategy<Value = Case> {
    (stream_in::stream_spec(7), stream_in::delivery()).prop_map(|(stream, delivery)| Case { stream, delivery })
}

fn long_case_strategy() -> impl Strategy<Value = Case> {
    (stream_in::stream_spec(70), stream_in::delivery(), prop_oneof![2u8..10, 12u8..16]).prop_map(|(stream, mut delivery, block)| {
        delivery.block = block;
        delivery.blocks.clear();
        Case { stream, delivery }
    })
}

pub fn run(ctx: &Ctx, rep: &mut Report) {
    let cases = ctx.share(ctx.tier.pick(240_000, 6_000_000));
    engine::drive(ctx, rep, "random", case_strategy(), cases, check_case);
    let cases = ctx.share(ctx.tier.pick(24_000, 800_000));
    engine::drive(ctx, rep, "long-streams", long_case_strategy(), cases, check_case);
    // The same short streams against an arena whose current chunk is a maximum-size one
    // with 0..4 bytes (or a block or so) left.
    let cases = ctx.share(ctx.tier.pick(24_000, 1_200_000));
    let big = (case_strategy(), prop_oneof![3 => 2u8..7, 1 => 7u8..40]).prop_map(|(mut c, prep)| {
        c.delivery.big_chunk = true;
        c.delivery.arena_prep = prep;
        c
    });
    engine::drive(ctx, rep, "max-size-chunk", big, cases, check_case);
    let cases = ctx.share(ctx.tier.pick(3_200, 100_000));
    let large = (stream_in::large_stream_spec(), stream_in::delivery(), stream_in::large_block()).prop_map(|(stream, mut delivery, block)| {
        delivery.block = block;
        delivery.blocks.clear();
        Case { stream, delivery }
    });
    engine::drive(ctx, rep, "large-records", large, cases, check_case);
    let cases = ctx.share(ctx.tier.pick(30_000, 600_000));
    let tail = (stream_in::stream_spec(7), stream_in::delivery_with_transient_eof()).prop_map(|(stream, delivery)| Case { stream, delivery });
    engine::drive(ctx, rep, "transient-eof", tail, cases, check_case);
}

fn replay(_ctx: &Ctx, _group: &str, case: &Value) -> CaseResult {
    check_case(&parse_case::<Case>(case)?)
}

pub fn def() -> PropDef {
    PropDef {
        id: "C08",
        rule: "A case is (stream description, delivery): the stream is a sequence of tokens - canonical encodings of small payloads, torn (truncated) and corrupted encodings, garbage, lone FE - each followed by 0..3 FE FD delimiters, optionally truncated as a whole; the delivery is a scripted reader (short reads down to one byte, Interrupted errors, optionally repeating), an io_block_size from {0,1,2,3,4,5,7,8,64,4096,70000,default} and an arena preparation (fresh, pre-sized, 0..4 bytes left in the current chunk; max-size-chunk: the current chunk is a 1 MiB one with 0..37 bytes left). large-records: 1..4 tokens built on payloads of up to 140000 bytes (one in nine of 0.5..1.3 MB: more than a default I/O block and than the arena's largest chunk), block sizes >= 64. In one delivery out of four every pump call gets its own io_block_size (a cyclic schedule of 2..5 sizes from the same set): the block size is an argument of each call, not of the stream. In one delivery out of six successive pump calls alternate between two arenas. transient-eof: the reader now and then returns Ok(0) with bytes left (a file being appended to) and goes on at the next call; the chunker may pass that on as Eof, after which tiling, offsets and contents must still hold (the FE FD straddle rule is suspended across such an Eof, where a held-back FE had to be flushed). Before one generated pump call the chunker is cloned together with the reader's position; the clone, pumped to the end afterwards, must hand out exactly the chunks the original handed out from that point. pump is called until Eof and twice more. Oracle with running position q: Sentinel(o) has o = q+2 and the stream holds FE FD at q; Data(o, s) is non-empty, equals stream[q..o], contains no FE FD, and a Data ending in FE is never followed by a Data starting with FD; Eof only at the real end and sticky; Sentinel count = number of FE FD occurrences. Non-trivial: the stream has a delimiter and some read delivered exactly the FE of an FE FD pair last. Distinct: hash of the serialised case.",
        assumptions: &["readers only deliver short reads and Interrupted errors (hard errors and premature end of file are C17's subject)"],
        exhaustive_note: None,
        shards: |t: Tier| t.pick(8, 16),
        run,
        replay,
    }
}
