//! C16 — SortedDeque behaves like an ordered map with append-only insertion.
use std::collections::BTreeMap;

use proptest::prelude::*;
use serde::{Deserialize, Serialize};
use serde_json::{json, Value};
use sliding_deque::traits::{PushTruncateContainer, SortedDequeComparator, SortedDequeItem, SortedDequeMarker};
use sliding_deque::SortedDeque;
use smallvec::SmallVec;

use super::{parse_case, PropDef};
use crate::engine::{self, panics, CaseResult, Ctx, Fail, Outcome, Report, Tier};

#[derive(Clone, Copy, Debug, PartialEq, Eq, Hash, Serialize, Deserialize)]
pub enum Op {
    /// Push `last key + 1 + gap` (or `gap` when empty) with this value.
    PushNext { gap: u8, value: u8 },
    /// Push an item that is already erased (must be a no-op), with this key.
    PushErased { key: u8 },
    /// Push a key that is not greater than the current last one: must panic; the case ends.
    PushBad { back: u8, value: u8 },
    Find(u8),
    Remove(u8),
    PopFirst,
    PopLast,
    Clear,
}

#[derive(Clone, Copy, Debug, PartialEq, Eq, Hash, Serialize, Deserialize)]
pub enum Convention {
    /// `(key, Option<value>)` pairs in a `Vec`.
    PairVec,
    /// `(key, Option<value>)` pairs in a `SmallVec<[_; 4]>` (what OwningIovec uses).
    PairSmall,
    /// Whole-item ordering through `SortedDequeItem`, in a `Vec`.
    ItemVec,
    /// `(i64, Option<u32>)` pairs with negative and positive keys far apart, in a `SmallVec<[_; 2]>`.
    WideSmall,
    /// A user-supplied comparator (reverse order on stored keys) and eraser, in a `Vec`.
    ReverseVec,
}

#[derive(Clone, Debug, Serialize, Deserialize)]
pub struct Case {
    pub convention: Convention,
    pub ops: Vec<Op>,
    /// Key universe (0 = the default of 8).
    #[serde(default)]
    pub universe: u8,
    /// The deque starts from a container already holding keys 0..init (live, ascending),
    /// handed to `SortedDeque::new(items, marker)` instead of `Default`.
    #[serde(default)]
    pub init: u8,
}

/// Whole-item convention: ordered by key first; erased = no value.
#[derive(Clone, Copy, Debug, PartialEq, Eq, PartialOrd, Ord)]
pub struct Item {
    key: u8,
    value: Option<std::num::NonZeroU8>,
}

impl SortedDequeItem for Item {
    fn mark_erased(&mut self) {
        self.value = None;
    }

    fn is_erased(&self) -> bool {
        self.value.is_none()
    }
}

/// Bridges the two item conventions.
trait Conv {
    type Item: Copy + std::fmt::Debug + PartialEq;
    type Key;
    /// The comparator / eraser the deque is instantiated with (`()` for the built-in conventions).
    type Marker: SortedDequeMarker<Self::Item, Key = Self::Key> + Clone + Default;
    fn live(key: u8, value: u8) -> Self::Item;
    fn erased(key: u8) -> Self::Item;
    /// Lookup key for `key`, given the value the reference holds for it (if any).
    fn lookup(key: u8, value: Option<u8>) -> Self::Key;
    fn parts(item: &Self::Item) -> (u8, Option<u8>);
    /// An item that is *not* greater than the stored last item `(last_key, last_value)`
    /// under this convention's ordering.
    fn not_greater(last_key: u8, last_value: u8, back: u8, value: u8) -> Self::Item;
}

struct PairConv;
impl Conv for PairConv {
    type Item = (u8, Option<u8>);
    type Key = u8;
    type Marker = ();
    fn live(key: u8, value: u8) -> Self::Item {
        (key, Some(value))
    }
    fn erased(key: u8) -> Self::Item {
        (key, None)
    }
    fn lookup(key: u8, _value: Option<u8>) -> u8 {
        key
    }
    fn parts(item: &Self::Item) -> (u8, Option<u8>) {
        *item
    }
    fn not_greater(last_key: u8, _last_value: u8, back: u8, value: u8) -> Self::Item {
        // Only the key is compared: any value will do.
        (last_key - back % (last_key + 1), Some(value))
    }
}

struct ItemConv;
impl Conv for ItemConv {
    type Item = Item;
    type Key = Item;
    type Marker = ();
    fn live(key: u8, value: u8) -> Item {
        Item {
            key,
            value: std::num::NonZeroU8::new(value.max(1)),
        }
    }
    fn erased(key: u8) -> Item {
        Item { key, value: None }
    }
    fn lookup(key: u8, value: Option<u8>) -> Item {
        // The whole item is the key: look up what the reference holds, or
        // some item with that key when the reference holds nothing.
        Item {
            key,
            value: std::num::NonZeroU8::new(value.unwrap_or(1).max(1)),
        }
    }
    fn parts(item: &Item) -> (u8, Option<u8>) {
        (item.key, item.value.map(|v| v.get()))
    }
    fn not_greater(last_key: u8, last_value: u8, back: u8, value: u8) -> Item {
        // The whole item is compared: a smaller key with any value, or the
        // very same item again.
        let key = last_key - back % (last_key + 1);
        if key == last_key {
            Self::live(key, last_value)
        } else {
            Self::live(key, value)
        }
    }
}

/// Wide signed keys with the built-in pair convention: logical key k is stored as
/// (k - 100) * 1_000_003 (negative and positive, far apart), values as u32.
struct WideConv;
fn wide(key: u8) -> i64 {
    (key as i64 - 100) * 1_000_003
}
impl Conv for WideConv {
    type Item = (i64, Option<u32>);
    type Key = i64;
    type Marker = ();
    fn live(key: u8, value: u8) -> Self::Item {
        (wide(key), Some(value as u32 * 65_537))
    }
    fn erased(key: u8) -> Self::Item {
        (wide(key), None)
    }
    fn lookup(key: u8, _value: Option<u8>) -> i64 {
        wide(key)
    }
    fn parts(item: &Self::Item) -> (u8, Option<u8>) {
        ((item.0 / 1_000_003 + 100) as u8, item.1.map(|v| (v / 65_537) as u8))
    }
    fn not_greater(last_key: u8, _last_value: u8, back: u8, value: u8) -> Self::Item {
        Self::live(last_key - back % (last_key + 1), value)
    }
}

/// A user-supplied comparator: keys are stored negated (255 - k) and compared in reverse,
/// so that the deque's order is the reverse of the stored keys' natural order; erasure is a flag.
#[derive(Clone, Copy, Debug, PartialEq)]
struct RevItem {
    stored: u8,
    value: u8,
    erased: bool,
}
#[derive(Clone, Default)]
struct RevMarker;
impl SortedDequeComparator<RevItem> for RevMarker {
    type Key = u8;
    fn extract_key(&self, item: &RevItem) -> u8 {
        item.stored
    }
    fn cmp(&self, x: &u8, y: &u8) -> std::cmp::Ordering {
        y.cmp(x)
    }
    fn is_erased(&self, item: &RevItem) -> bool {
        item.erased
    }
}
impl SortedDequeMarker<RevItem> for RevMarker {
    fn mark_erased(&self, item: &mut RevItem) {
        item.erased = true;
    }
}
struct RevConv;
impl Conv for RevConv {
    type Item = RevItem;
    type Key = u8;
    type Marker = RevMarker;
    fn live(key: u8, value: u8) -> RevItem {
        RevItem { stored: 255 - key, value, erased: false }
    }
    fn erased(key: u8) -> RevItem {
        RevItem { stored: 255 - key, value: 0, erased: true }
    }
    fn lookup(key: u8, _value: Option<u8>) -> u8 {
        255 - key
    }
    fn parts(item: &RevItem) -> (u8, Option<u8>) {
        (255 - item.stored, if item.erased { None } else { Some(item.value) })
    }
    fn not_greater(last_key: u8, _last_value: u8, back: u8, value: u8) -> RevItem {
        Self::live(last_key - back % (last_key + 1), value)
    }
}

#[derive(Clone, Copy, PartialEq, Eq, Debug)]
enum Slot {
    Present,
    Tombstone,
}

/// Reference: an ordered map, plus the insertion history needed to classify cases.
#[derive(Clone, Default)]
struct Model {
    map: BTreeMap<u8, u8>,
    /// Keys pushed since the last clear that have not been physically dropped
    /// by an end operation, in order (classification only).
    order: Vec<(u8, Slot)>,
}

#[derive(Default, Clone, Copy)]
struct Stats {
    pop_next_to_tombstone: bool,
    find_between_tombstones: bool,
    expected_panic: bool,
}

impl Model {
    fn trim(&mut self) {
        while matches!(self.order.first(), Some((_, Slot::Tombstone))) {
            self.order.remove(0);
        }
        while matches!(self.order.last(), Some((_, Slot::Tombstone))) {
            self.order.pop();
        }
    }

    fn drop_key(&mut self, key: u8, stats: &mut Stats) {
        let Some(pos) = self.order.iter().position(|(k, _)| *k == key) else {
            return;
        };
        let at_front = pos == 0;
        let at_back = pos + 1 == self.order.len();
        if at_front || at_back {
            let neighbour = if at_front { self.order.get(1) } else { self.order.get(pos.wrapping_sub(1)) };
            if matches!(neighbour, Some((_, Slot::Tombstone))) {
                stats.pop_next_to_tombstone = true;
            }
            self.order.remove(pos);
            self.trim();
        } else {
            self.order[pos].1 = Slot::Tombstone;
        }
    }
}

const UNIVERSE: u8 = 8;

thread_local! {
    /// Key universe of the case being run (8 for the enumerations and short histories, up to 250 for long runs).
    static UNIVERSE_NOW: std::cell::Cell<u8> = const { std::cell::Cell::new(UNIVERSE) };
}

fn universe() -> u8 {
    UNIVERSE_NOW.with(|u| u.get())
}

fn observe<C, V>(deque: &SortedDeque<C, V::Marker>, model: &Model, after: &str) -> Result<(), Fail>
where
    V: Conv,
    C: PushTruncateContainer<Item = V::Item> + Clone + Default,
{
    let r = panics::catch(|| -> Result<(), String> {
        let got: Vec<(u8, Option<u8>)> = deque.iter().map(V::parts).collect();
        let want: Vec<(u8, Option<u8>)> = model.map.iter().map(|(k, v)| (*k, Some(*v))).collect();
        if got != want {
            return Err(format!("iteration yields {got:?}, reference {want:?}"));
        }
        // However the iterator is consumed: nth / skip / step_by / count / last / size_hint must agree
        // with plain iteration (an iterator may override them).
        let n = want.len();
        let probes: Vec<usize> = if n <= 12 { (0..=n + 1).collect() } else { vec![0, 1, 2, n / 2, n - 2, n - 1, n, n + 1] };
        for k in probes {
            let nth = deque.iter().nth(k).map(V::parts);
            let skipped: Vec<(u8, Option<u8>)> = deque.iter().skip(k).map(V::parts).collect();
            if nth != want.get(k).copied() || skipped[..] != want[k.min(n)..] {
                return Err(format!("iter().nth({k}) = {nth:?} and iter().skip({k}) yields {skipped:?}, plain iteration yields {want:?}"));
            }
        }
        let stepped: Vec<(u8, Option<u8>)> = deque.iter().step_by(2).map(V::parts).collect();
        let want_stepped: Vec<(u8, Option<u8>)> = want.iter().copied().step_by(2).collect();
        let (lo, hi) = deque.iter().size_hint();
        if stepped != want_stepped || deque.iter().count() != n || deque.iter().last().map(V::parts) != want.last().copied() || lo > n || hi.map(|h| h < n).unwrap_or(false) {
            return Err(format!(
                "iter().step_by(2) yields {stepped:?}, count() {}, last() {:?}, size_hint {:?}; plain iteration yields {want:?}",
                deque.iter().count(),
                deque.iter().last().map(V::parts),
                (lo, hi)
            ));
        }
        let first = deque.first().map(V::parts);
        let last = deque.last().map(V::parts);
        let want_first = model.map.iter().next().map(|(k, v)| (*k, Some(*v)));
        let want_last = model.map.iter().next_back().map(|(k, v)| (*k, Some(*v)));
        if first != want_first || last != want_last {
            return Err(format!("first/last {first:?}/{last:?}, reference {want_first:?}/{want_last:?}"));
        }
        if deque.is_empty() != model.map.is_empty() {
            return Err(format!("is_empty {}, reference {}", deque.is_empty(), model.map.is_empty()));
        }
        // With a large universe, probing every key after every step is quadratic: sample.
        let uni = universe();
        let stride = if uni > 16 { 1 + (uni as usize) / 12 } else { 1 };
        for key in (0..uni.saturating_add(2)).step_by(stride) {
            let held = model.map.get(&key).copied();
            let got = deque.find(&V::lookup(key, held)).map(V::parts);
            let want = held.map(|v| (key, Some(v)));
            if got != want {
                return Err(format!("find({key}) = {got:?}, reference {want:?}"));
            }
        }
        Ok(())
    });
    match r {
        Err(p) => Err(Fail::new(format!("panic:observe-after-{after}:{}", p.signature()), p.describe())),
        Ok(Err(msg)) => Err(Fail::new(format!("observe:{after}"), format!("after {after}: {msg}"))),
        Ok(Ok(())) => Ok(()),
    }
}

/// Applies one operation; `Ok(false)` means the case ends (expected panic).
fn step<C, V>(deque: &mut SortedDeque<C, V::Marker>, model: &mut Model, op: &Op, stats: &mut Stats) -> Result<bool, Fail>
where
    V: Conv,
    C: PushTruncateContainer<Item = V::Item> + Clone + Default,
{
    let name = match op {
        Op::PushNext { .. } => "push_back_or_panic",
        Op::PushErased { .. } => "push_back_or_panic(erased)",
        Op::PushBad { .. } => "push_back_or_panic(bad)",
        Op::Find(_) => "find",
        Op::Remove(_) => "remove",
        Op::PopFirst => "pop_first",
        Op::PopLast => "pop_last",
        Op::Clear => "clear",
    };
    let last_key = model.map.keys().next_back().copied();
    if let Op::PushBad { back, value } = op {
        let Some(last) = last_key else {
            return Ok(true); // nothing to be "not greater than"
        };
        let last_value = model.map[&last];
        let item = V::not_greater(last, last_value, *back, *value);
        let r = panics::catch(|| deque.push_back_or_panic(item));
        return match r {
            Err(_) => {
                stats.expected_panic = true;
                Ok(false)
            }
            Ok(()) => Err(Fail::new(
                "push:no-panic",
                format!("pushing {item:?}, which is not greater than the last item (key {last}, value {last_value}), did not panic"),
            )),
        };
    }
    let r = panics::catch(|| -> Result<(), String> {
        match *op {
            Op::PushNext { gap, value } => {
                let key = match last_key {
                    None => gap % universe(),
                    Some(last) => last.saturating_add(1 + gap % 2),
                };
                if key < universe() {
                    deque.push_back_or_panic(V::live(key, value));
                    let stored = V::parts(&V::live(key, value)).1.unwrap();
                    model.map.insert(key, stored);
                    model.order.push((key, Slot::Present));
                }
            }
            Op::PushErased { key } => deque.push_back_or_panic(V::erased(key % universe())),
            Op::PushBad { .. } => unreachable!(),
            Op::Find(key) => {
                let held = model.map.get(&key).copied();
                let got = deque.find(&V::lookup(key, held)).map(V::parts);
                let want = held.map(|v| (key, Some(v)));
                if got != want {
                    return Err(format!("find({key}) = {got:?}, reference {want:?}"));
                }
                if let Some(pos) = model.order.iter().position(|(k, _)| *k == key) {
                    let before = pos > 0 && model.order[pos - 1].1 == Slot::Tombstone;
                    let after = model.order.get(pos + 1).map(|s| s.1) == Some(Slot::Tombstone);
                    if before && after {
                        stats.find_between_tombstones = true;
                    }
                }
            }
            Op::Remove(key) => {
                let held = model.map.get(&key).copied();
                let got = deque.remove(&V::lookup(key, held)).map(|i| V::parts(&i));
                let want = model.map.remove(&key).map(|v| (key, Some(v)));
                if got != want {
                    return Err(format!("remove({key}) = {got:?}, reference {want:?}"));
                }
                if want.is_some() {
                    model.drop_key(key, stats);
                }
            }
            Op::PopFirst => {
                let got = deque.pop_first().map(|i| V::parts(&i));
                let want = model.map.pop_first().map(|(k, v)| (k, Some(v)));
                if got != want {
                    return Err(format!("pop_first = {got:?}, reference {want:?}"));
                }
                if let Some((k, _)) = want {
                    model.drop_key(k, stats);
                }
            }
            Op::PopLast => {
                let got = deque.pop_last().map(|i| V::parts(&i));
                let want = model.map.pop_last().map(|(k, v)| (k, Some(v)));
                if got != want {
                    return Err(format!("pop_last = {got:?}, reference {want:?}"));
                }
                if let Some((k, _)) = want {
                    model.drop_key(k, stats);
                }
            }
            Op::Clear => {
                deque.clear();
                model.map.clear();
                model.order.clear();
            }
        }
        Ok(())
    });
    match r {
        Err(p) => return Err(Fail::new(format!("panic:{name}:{}", p.signature()), format!("{name} panicked: {}", p.describe()))),
        Ok(Err(msg)) => return Err(Fail::new(format!("return:{name}"), msg)),
        Ok(Ok(())) => {}
    }
    observe::<C, V>(deque, model, name)?;
    // `observe` looked every key up: note whether one of them sits between two tombstones.
    if model.order.windows(3).any(|w| w[0].1 == Slot::Tombstone && w[1].1 == Slot::Present && w[2].1 == Slot::Tombstone) {
        stats.find_between_tombstones = true;
    }
    Ok(true)
}

fn run_typed<C, V>(case: &Case) -> CaseResult
where
    V: Conv,
    C: PushTruncateContainer<Item = V::Item> + Clone + Default,
{
    let mut model = Model::default();
    let mut deque: SortedDeque<C, V::Marker> = if case.init == 0 {
        Default::default()
    } else {
        let mut items = C::default();
        for k in 0..case.init.min(universe()) {
            items.push(V::live(k, k.wrapping_add(10)));
            model.map.insert(k, k.wrapping_add(10));
            model.order.push((k, Slot::Present));
        }
        SortedDeque::new(items, Default::default())
    };
    let mut stats = Stats::default();
    observe::<C, V>(&deque, &model, "new")?;
    // A second deque with a history of its own, which becomes a copy of the first through
    // `clone_from` every few operations and then goes its own way again.
    let mut spare: SortedDeque<C, V::Marker> = Default::default();
    for k in 0..4u8 {
        spare.push_back_or_panic(V::live(k, k));
    }
    let _ = spare.pop_first();
    for (i, op) in case.ops.iter().enumerate() {
        match step::<C, V>(&mut deque, &mut model, op, &mut stats) {
            Ok(true) => {}
            Ok(false) => break,
            Err(f) => return Err(Fail::new(f.sig, format!("op #{i} {op:?}: {}", f.msg))),
        }
        if i % 4 == 3 {
            match panics::catch(|| spare.clone_from(&deque)) {
                Err(p) => return Err(Fail::new(format!("panic:clone_from:{}", p.signature()), format!("after op #{i}: clone_from onto a used deque panicked: {}", p.describe()))),
                Ok(()) => {}
            }
            observe::<C, V>(&spare, &model, "clone_from").map_err(|f| Fail::new(f.sig, format!("after op #{i}: the copy made by clone_from: {}", f.msg)))?;
            let _ = panics::catch(|| {
                let _ = spare.pop_first();
                let _ = spare.pop_last();
            });
        }
    }
    Ok(outcome(&stats))
}

fn outcome(stats: &Stats) -> Outcome {
    Outcome::new(stats.pop_next_to_tombstone || stats.find_between_tombstones)
        .label_if(stats.pop_next_to_tombstone, "end_removal_next_to_tombstone")
        .label_if(stats.find_between_tombstones, "find_between_tombstones")
        .label_if(stats.expected_panic, "expected_panic_on_non_increasing_push")
}

pub fn check_case(case: &Case) -> CaseResult {
    UNIVERSE_NOW.with(|u| u.set(if case.universe == 0 { UNIVERSE } else { case.universe }));
    let r = check_case_inner(case);
    UNIVERSE_NOW.with(|u| u.set(UNIVERSE));
    r
}

fn check_case_inner(case: &Case) -> CaseResult {
    match case.convention {
        Convention::PairVec => run_typed::<Vec<(u8, Option<u8>)>, PairConv>(case),
        Convention::PairSmall => run_typed::<SmallVec<[(u8, Option<u8>); 4]>, PairConv>(case),
        Convention::ItemVec => run_typed::<Vec<Item>, ItemConv>(case),
        Convention::WideSmall => run_typed::<SmallVec<[(i64, Option<u32>); 2]>, WideConv>(case),
        Convention::ReverseVec => run_typed::<Vec<RevItem>, RevConv>(case),
    }
}

fn alphabet() -> Vec<Op> {
    let mut v = vec![
        Op::PushNext { gap: 0, value: 7 },
        Op::PushNext { gap: 1, value: 9 },
        Op::PushErased { key: 3 },
        Op::PopFirst,
        Op::PopLast,
        Op::Clear,
    ];
    for k in 0..6 {
        v.push(Op::Remove(k));
    }
    v
}

fn dfs<C, V>(
    deque: &SortedDeque<C, V::Marker>,
    model: &Model,
    stats: Stats,
    path: &mut Vec<Op>,
    depth: usize,
    alphabet: &[Op],
    counts: &mut (u64, u64),
) -> Result<(), (Vec<Op>, Fail)>
where
    V: Conv,
    C: PushTruncateContainer<Item = V::Item> + Clone + Default,
{
    if path.len() == depth {
        return Ok(());
    }
    for op in alphabet {
        let mut d = deque.clone();
        let mut m = model.clone();
        let mut s = stats;
        path.push(*op);
        match step::<C, V>(&mut d, &mut m, op, &mut s) {
            Err(f) => return Err((path.clone(), f)),
            Ok(_) => {}
        }
        counts.0 += 1;
        if s.pop_next_to_tombstone || s.find_between_tombstones {
            counts.1 += 1;
        }
        // Near the root, also check that a non-increasing push panics here.
        if path.len() <= 4 && !m.map.is_empty() {
            let mut d2 = d.clone();
            let mut m2 = m.clone();
            let mut s2 = s;
            let bad = Op::PushBad { back: 0, value: 1 };
            if let Err(f) = step::<C, V>(&mut d2, &mut m2, &bad, &mut s2) {
                path.push(bad);
                return Err((path.clone(), f));
            }
            counts.0 += 1;
        }
        dfs::<C, V>(&d, &m, s, path, depth, alphabet, counts)?;
        path.pop();
    }
    Ok(())
}

fn exhaustive<C, V>(ctx: &Ctx, rep: &mut Report, convention: Convention, depth: usize)
where
    V: Conv,
    C: PushTruncateContainer<Item = V::Item> + Clone + Default,
{
    let group = format!("exhaustive-{convention:?}");
    let alphabet = alphabet();
    let mut counts = (0u64, 0u64);
    let mut index = 0u64;
    for a in &alphabet {
        for b in &alphabet {
            index += 1;
            if !ctx.owns(index) {
                continue;
            }
            let mut deque: SortedDeque<C, V::Marker> = Default::default();
            let mut model = Model::default();
            let mut stats = Stats::default();
            let mut path = vec![];
            let mut result = Ok(());
            for op in [a, b] {
                path.push(*op);
                if let Err(f) = step::<C, V>(&mut deque, &mut model, op, &mut stats) {
                    result = Err((path.clone(), f));
                    break;
                }
            }
            counts.0 += 1;
            if result.is_ok() {
                result = dfs::<C, V>(&deque, &model, stats, &mut path, depth, &alphabet, &mut counts);
            }
            if let Err((ops, fail)) = result {
                let case = Case { convention, ops, universe: 0, init: 0 };
                let fail = match engine::guarded(&case, &check_case) {
                    Err(f) => f,
                    Ok(_) => fail,
                };
                rep.evaluations += counts.0;
                rep.add_failure(ctx, &group, &case, fail);
                return;
            }
        }
    }
    rep.add_enumerated(&group, counts.0, counts.1);
    rep.sub_add("exhaustive", &format!("sequences_{convention:?}"), counts.0);
    rep.sub_set("exhaustive", "max_depth", json!(depth));
    rep.sub_set("exhaustive", "alphabet", json!(format!("{alphabet:?}")));
    rep.sub_set("exhaustive", "exhaustive", json!(true));
}

fn op_strategy() -> impl Strategy<Value = Op> {
    prop_oneof![
        8 => (0u8..2, any::<u8>()).prop_map(|(gap, value)| Op::PushNext { gap, value }),
        1 => (0u8..UNIVERSE).prop_map(|key| Op::PushErased { key }),
        3 => (0u8..UNIVERSE + 1).prop_map(Op::Find),
        6 => (0u8..UNIVERSE + 1).prop_map(Op::Remove),
        2 => Just(Op::PopFirst),
        2 => Just(Op::PopLast),
        1 => Just(Op::Clear),
    ]
}

fn case_strategy(max_ops: usize) -> impl Strategy<Value = Case> {
    (
        prop_oneof![3 => Just(Convention::PairVec), 3 => Just(Convention::PairSmall), 3 => Just(Convention::ItemVec), 2 => Just(Convention::WideSmall), 2 => Just(Convention::ReverseVec)],
        proptest::collection::vec(op_strategy(), 0..max_ops),
        // Optionally end on a push that must panic.
        proptest::option::weighted(0.15, (any::<u8>(), any::<u8>())),
        prop_oneof![3 => Just(0u8), 1 => 1u8..6],
    )
        .prop_map(|(convention, mut ops, bad, init)| {
            if let Some((back, value)) = bad {
                ops.push(Op::PushBad { back, value });
            }
            Case { convention, ops, universe: 0, init }
        })
}

/// Long runs: fill with n keys, erase a long contiguous run (or scattered keys) in the
/// middle in a generated order, then pop / remove at the ends and keep going.
fn long_run_strategy() -> impl Strategy<Value = Case> {
    (
        prop_oneof![3 => Just(Convention::PairVec), 3 => Just(Convention::PairSmall), 3 => Just(Convention::ItemVec), 2 => Just(Convention::WideSmall), 2 => Just(Convention::ReverseVec)],
        20u8..250,
        any::<u8>(),
        any::<u8>(),
        proptest::collection::vec(any::<u8>(), 0..24),
        proptest::collection::vec(op_strategy_wide(), 0..30),
        0u8..3,
    )
        .prop_map(|(convention, n, from, len, scatter, tail, order)| {
            let mut ops: Vec<Op> = (0..n).map(|i| Op::PushNext { gap: 0, value: i }).collect();
            // a contiguous run [a, b) strictly inside (the ends stay live)
            let a = 1 + (from as usize * (n as usize - 2)) / 256;
            let b = (a + (len as usize * (n as usize - 1 - a)) / 255).min(n as usize - 1);
            let mut run: Vec<u8> = (a..b).map(|k| k as u8).collect();
            match order {
                0 => {}
                1 => run.reverse(),
                _ => {
                    // deterministic shuffle
                    let m = run.len();
                    for i in 0..m {
                        run.swap(i, (i * 7 + 3) % m.max(1));
                    }
                }
            }
            ops.extend(run.into_iter().map(Op::Remove));
            ops.extend(scatter.into_iter().map(|k| Op::Remove(k % n)));
            ops.push(Op::PopFirst);
            ops.push(Op::PopLast);
            ops.extend(tail);
            Case { convention, ops, universe: 250, init: 0 }
        })
}

fn op_strategy_wide() -> impl Strategy<Value = Op> {
    prop_oneof![
        2 => (0u8..2, any::<u8>()).prop_map(|(gap, value)| Op::PushNext { gap, value }),
        3 => any::<u8>().prop_map(Op::Find),
        4 => any::<u8>().prop_map(Op::Remove),
        4 => Just(Op::PopFirst),
        3 => Just(Op::PopLast),
    ]
}

pub fn run(ctx: &Ctx, rep: &mut Report) {
    let depth = ctx.tier.pick(7, 8);
    exhaustive::<Vec<(u8, Option<u8>)>, PairConv>(ctx, rep, Convention::PairVec, depth);
    exhaustive::<SmallVec<[(u8, Option<u8>); 4]>, PairConv>(ctx, rep, Convention::PairSmall, depth);
    exhaustive::<Vec<Item>, ItemConv>(ctx, rep, Convention::ItemVec, depth);
    // Wide signed keys and a user-supplied reversed comparator, one level less deep.
    exhaustive::<SmallVec<[(i64, Option<u32>); 2]>, WideConv>(ctx, rep, Convention::WideSmall, depth - 1);
    exhaustive::<Vec<RevItem>, RevConv>(ctx, rep, Convention::ReverseVec, depth - 1);
    rep.add_sample(
        "exhaustive-PairVec",
        json!({"note": "every sequence over the alphabet up to max_depth, e.g.", "ops": ["PushNext", "PushNext", "PushNext", "Remove(1)", "PopFirst", "PopLast"]}),
    );
    let cases = ctx.share(ctx.tier.pick(80_000, 8_000_000));
    engine::drive(ctx, rep, "random", case_strategy(150), cases, check_case);
    let cases = ctx.share(ctx.tier.pick(12_000, 1_000_000));
    engine::drive(ctx, rep, "long-runs", long_run_strategy(), cases, check_case);
}

fn replay(_ctx: &Ctx, _group: &str, case: &Value) -> CaseResult {
    check_case(&parse_case::<Case>(case)?)
}

pub fn def() -> PropDef {
    PropDef {
        id: "C16",
        rule: "Cases are operation sequences (push with increasing keys, push of an already-erased item, push of a non-increasing key which must panic, find, remove, pop_first, pop_last, clear) on SortedDeque, for (key, Option<value>) pairs over Vec and SmallVec<[_;4]> for a whole-item SortedDequeItem type over Vec, for (i64, Option<u32>) pairs with negative and positive keys far apart over SmallVec<[_;2]>, and for a user-supplied comparator and eraser (reverse order on the stored keys, erasure as a flag) over Vec, over a key universe of 8 (long-runs: 20..250 keys pushed, a contiguous run of the middle keys erased in ascending / descending / shuffled order plus scattered erasures, then pops at both ends and a random tail, over a universe of 250). After every step iteration order (through plain iteration and through nth / skip / step_by / count / last / size_hint), first, last, is_empty and find for every key of the universe are compared with a BTreeMap. Part 1 enumerates all sequences over a 12-symbol alphabet up to max_depth; part 2 draws random sequences of up to 150 operations. Non-trivial: an end removal (pop or remove) whose neighbour in insertion order is a tombstone left by a middle removal, or a find of a key lying between two tombstones. Distinct: by enumeration for part 1, by hash of the serialised case for part 2.",
        assumptions: &[
            "whole-item convention is only exercised with distinct keys (erasing must not reorder an item relative to its neighbours)",
            "harness built with debug assertions on",
        ],
        exhaustive_note: Some("exhaustive-* groups: complete enumeration of all sequences up to max_depth over the stated alphabet"),
        shards: |t: Tier| t.pick(8, 16),
        run,
        replay,
    }
}
