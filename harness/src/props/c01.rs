//! C01 — HCOBS round trip: decoding an encoded message returns the original bytes.
use serde_json::Value;

use super::codec::{self, CodecCase};
use super::hcobs_small::{self, Focus, SmallEnc};
use super::{parse_case, PropDef};
use crate::engine::bytespec::stuff_positions;
use crate::engine::{self, CaseResult, Ctx, Fail, Outcome, Report, Tier};

pub fn check_case(case: &CodecCase) -> CaseResult {
    let plain = case.payload.bytes();
    let pre = &case.pre.0;
    let enc = codec::run_encoder(&plain, pre, &case.enc, false)?;
    if enc.output.len() < pre.len() || enc.output[..pre.len()] != pre[..] {
        return Err(Fail::new("encode:prefix-lost", "bytes already in the iovec handed to new_from_iovec are not at the front of the output"));
    }
    let stream = &enc.output[pre.len()..];
    // The same prefix on the decoder's side: decoded bytes come after what its iovec already holds.
    let dec = codec::run_decoder_pre(stream, pre, &case.dec, false)?;
    match &dec.result {
        Ok(back) if *back == plain => {}
        Ok(back) => return Err(Fail::new("roundtrip:mismatch", codec::mismatch("decoded output differs from the original", back, &plain))),
        Err(e) => {
            return Err(Fail::new(
                "roundtrip:rejected",
                format!("the decoder rejected the encoder's output for a {}-byte message ({} encoded bytes): {e}", plain.len(), stream.len()),
            ))
        }
    }
    let stuffs = stuff_positions(&plain).len();
    let nontrivial = (plain.len() >= 252 || stuffs > 0) && (enc.obs.pieces >= 2 || dec.obs.pieces >= 2);
    Ok(Outcome::new(nontrivial)
        .label_if(plain.len() >= 252, "payload>=252")
        .label_if(plain.len() >= 252 + 64008, "payload>=64260")
        .label_if(stuffs > 0, "has_stuff_sequence")
        .label_if(enc.obs.methods_used.len() >= 2, "enc_mixed_methods")
        .label_if(dec.obs.methods_used.len() >= 2, "dec_mixed_methods")
        .label_if(enc.obs.methods_used.contains("read") || dec.obs.methods_used.contains("read"), "scripted_reader")
        .label_if(enc.obs.interrupts + dec.obs.interrupts > 0, "eintr")
        .label_if(enc.obs.failed_reads + dec.obs.failed_reads > 0, "failed_read_call")
        .label_if(enc.obs.drains_done > 0, "enc_drained_in_flight")
        .label_if(dec.obs.drains_done > 0, "dec_drained_in_flight")
        .label_if(!pre.is_empty(), "encoder_from_nonempty_iovec"))
}

pub fn run(ctx: &Ctx, rep: &mut Report) {
    hcobs_small::enumerate_enc(ctx, rep, Focus::RoundTrip, ctx.tier.pick(7, 9));
    let cases = ctx.share(ctx.tier.pick(40_000, 400_000));
    engine::drive(ctx, rep, "random", codec::codec_case(false), cases, check_case);
    let cases = ctx.share(ctx.tier.pick(4_000, 40_000));
    engine::drive(ctx, rep, "random-large", codec::codec_case(true), cases, check_case);
    let cases = ctx.share(ctx.tier.pick(6_000, 40_000));
    engine::drive(ctx, rep, "power-of-two-aligned", codec::aligned_case(), cases, check_case);
    let cases = ctx.share(ctx.tier.pick(4_000, 100_000));
    {
        let _ballast = super::iovec_sm::Ballast::new(super::iovec_sm::BALLAST_MIB);
        engine::drive(ctx, rep, "random-with-ballast", codec::codec_case(false), cases, check_case);
    }
}

fn replay(_ctx: &Ctx, group: &str, case: &Value) -> CaseResult {
    if group.starts_with("small-scope") {
        hcobs_small::check_small_enc(&parse_case::<SmallEnc>(case)?, Focus::RoundTrip)
    } else if group.ends_with("with-ballast") {
        super::iovec_sm::check_with_ballast(&parse_case::<CodecCase>(case)?, check_case)
    } else {
        check_case(&parse_case::<CodecCase>(case)?)
    }
}

pub fn def() -> PropDef {
    PropDef {
        id: "C01",
        rule: "A case is (payload description, encoder feeding plan, decoder feeding plan): the payload is a concatenation of segments with lengths biased to 0..8, 244..260, 63990..64030, 64254..64266 and bytes from FE/FD/00/FC-heavy alphabets, joined by FE FD-like tokens; each plan cuts its input into up to 12 pieces (cuts placed by fraction, near stuff sequences / chunk limits / chunk headers, or at absolute boundary positions), assigns an input method to each piece (borrow, copy, read_n+anchored, encode_read/decode_read with a scripted short-read/EINTR reader) and a consumer drain action after each call (consume slices, advance bytes, Read, everything, nothing). The power-of-two-aligned group places FE FD (or FE, FE FE FD, FE FD FE FD) after gaps of k*2^p-1+d bytes (p = 6..16, k = 1..4, d = -2..1) counted from the start of the input, from the end of the 252-byte first chunk or from the previous stuff sequence, and feeds half of the cases in one call, so that a stuff sequence straddles any power-of-two scan block of one call's slice. One case in ten starts both codecs from an iovec that already holds a few bytes (new_from_iovec). Oracle: the decoder accepts the encoder's output and returns the payload. Non-trivial: payload has >= 252 bytes or contains FE FD, and at least one side was fed in >= 2 calls. Distinct: hash of the serialised case. The small-scope group enumerates every string over {FE,FD,00} up to max_len with four tiny limit pairs, every 2-way cut and copy/borrow choice on both sides, through the hcobs::verif hook.",
        assumptions: &[
            "scripted readers never return more than asked, never report end of file before the data ends, and never fail with a non-Interrupted error (C17 covers those)",
            "decoders are not fed after their first error",
        ],
        exhaustive_note: Some("small-scope-encoder: complete enumeration (see sub_reports)"),
        shards: |t: Tier| t.pick(8, 16),
        run,
        replay,
    }
}
