//! C01 — HCOBS round trip: decoding an encoded message returns the original bytes.
use serde_json::Value;

use super::codec::{self, CodecCase};
use super::hcobs_small::{self, Focus, SmallEnc};
use super::{parse_case, PropDef};
use crate::engine::bytespec::stuff_positions;
use crate::engine::{self, CaseResult, Ctx, Fail, Outcome, Report, Tier};

pub fn check_case(case: &CodecCase) -> CaseResult {
    let plain = case.payload.bytes();
    let pre = &case.pre.0;
    let enc = codec::run_encoder(&plain, pre, &case.enc, false)?;
    if enc.output.len() < pre.len() || enc.output[..pre.len()] != pre[..] {
        return Err(Fail::new("encode:prefix-lost", "bytes already in the iovec handed to new_from_iovec are not at the front of the output"));
    }
    let stream = &enc.output[pre.len()..];
    // The same prefix on the decoder's side: decoded bytes come after what its iovec already holds.
    let dec = codec::run_decoder_pre(stream, pre, &case.dec, false)?;
    match &dec.result {
        Ok(back) if *back == plain => {}
        Ok(back) => return Err(Fail::new("roundtrip:mismatch", codec::mismatch("decoded output differs from the original", back, &plain))),
        Err(e) => {
            return Err(Fail::new(
                "roundtrip:rejected",
                format!("the decoder rejected the encoder's output for a {}-byte message ({} encoded bytes): {e}", plain.len(), stream.len()),
            ))
        }
    }
    let stuffs = stuff_positions(&plain).len();
    let nontrivial = (plain.len() >= 252 || stuffs > 0) && (enc.obs.pieces >= 2 || dec.obs.pieces >= 2);
    Ok(Outcome::new(nontrivial)
        .label_if(plain.len() >= 252, "payload>=252")
        .label_if(plain.len() >= 252 + 64008, "payload>=64260")
        .label_if(stuffs > 0, "has_stuff_sequence")
        .label_if(enc.obs.methods_used.len() >= 2, "enc_mixed_methods")
        .label_if(dec.obs.methods_used.len() >= 2, "dec_mixed_methods")
        .label_if(enc.obs.methods_used.contains("read") || dec.obs.methods_used.contains("read"), "scripted_reader")
        .label_if(enc.obs.interrupts + dec.obs.interrupts > 0, "eintr")
        .label_if(enc.obs.failed_reads + dec.obs.failed_reads > 0, "failed_read_call")
        .label_if(enc.obs.drains_done > 0, "enc_drained_in_flight")
        .label_if(dec.obs.drains_done > 0, "dec_drained_in_flight")
        .label_if(!pre.is_empty(), "encoder_from_nonempty_iovec"))
}

/// Encoder piped straight into a Decoder: after every encoder call the decoder reads from the
/// encoder's consumer (`decode_read(&mut encoder.consumer(), ..)`: the consumer is an `io::Read`),
/// both codecs are moved in memory now and then, and the decoded bytes must be the payload.
pub fn check_piped(case: &CodecCase) -> CaseResult {
    use hcobs::{Decoder, Encoder};
    use std::num::NonZeroUsize;
    let plain = case.payload.bytes();
    let cuts = crate::engine::bytespec::resolve_cuts(&case.enc.cuts, plain.len(), &codec::plain_interesting(&plain));
    let pieces = crate::engine::bytespec::split_at_cuts(&plain, &cuts);
    let mut encoder: Encoder<'_> = Encoder::new();
    let mut decoder: Decoder<'_> = Decoder::new();
    let mut piped = 0usize;
    for (i, piece) in pieces.iter().enumerate() {
        match i % 3 {
            0 => encoder.encode(piece),
            1 => encoder.encode_copy(piece),
            _ => {
                let mut src = *piece;
                let a = encoder.read_n(&mut src, piece.len(), NonZeroUsize::new(2).unwrap()).map_err(|e| Fail::new("read_n:error", e.to_string()))?;
                encoder.encode_anchored(a);
            }
        }
        if i % 4 == 1 {
            // A move of each codec (they are plain values: nothing may point into them).
            let moved = std::mem::replace(&mut encoder, Encoder::new());
            let boxed = Box::new(moved);
            encoder = *boxed;
            let moved = std::mem::replace(&mut decoder, Decoder::new());
            decoder = *Box::new(moved);
        }
        // Ask for a generated amount: sometimes less than what is consumable, sometimes far more.
        let avail = encoder.consumer().stable_prefix().iter().map(|s| s.len()).sum::<usize>();
        let ask = match case.dec.cuts.len() % 3 {
            0 => avail + 1000,
            1 => avail / 2 + 1,
            _ => 70_000,
        };
        let n = decoder
            .decode_read(&mut encoder.consumer(), ask, NonZeroUsize::new(1 + i % 3).unwrap())
            .map_err(|e| Fail::new("piped:decoder-rejects", format!("decode_read from the encoder's consumer failed after piece #{i}: {e}")))?;
        piped += n;
    }
    let mut rest = encoder.finish();
    loop {
        let left = rest.total_size();
        if left == 0 {
            break;
        }
        let n = decoder
            .decode_read(&mut rest.consumer(), left, NonZeroUsize::new(2).unwrap())
            .map_err(|e| Fail::new("piped:decoder-rejects", format!("decode_read from the finished encoder output failed: {e}")))?;
        if n == 0 {
            return Err(Fail::new("piped:stalled", format!("{left} bytes of encoder output are left but the consumer reads as empty")));
        }
        piped += n;
    }
    let back = decoder
        .finish()
        .map_err(|e| Fail::new("piped:decoder-rejects", format!("finish() after piping {piped} bytes: {e}")))?
        .flatten()
        .map_err(|_| Fail::new("piped:pending", "placeholder pending in the decoder output".to_string()))?;
    if back != plain {
        return Err(Fail::new("piped:mismatch", codec::mismatch("encoder piped into a decoder through the consumer's Read", &back, &plain)));
    }
    Ok(Outcome::new(pieces.len() >= 2 && plain.len() >= 252).label_if(plain.len() >= 64_260, "payload>=64260"))
}

pub fn run(ctx: &Ctx, rep: &mut Report) {
    hcobs_small::enumerate_enc(ctx, rep, Focus::RoundTrip, ctx.tier.pick(7, 9));
    let cases = ctx.share(ctx.tier.pick(40_000, 400_000));
    engine::drive(ctx, rep, "random", codec::codec_case(false), cases, check_case);
    let cases = ctx.share(ctx.tier.pick(4_000, 40_000));
    engine::drive(ctx, rep, "random-large", codec::codec_case(true), cases, check_case);
    let cases = ctx.share(ctx.tier.pick(6_000, 40_000));
    engine::drive(ctx, rep, "power-of-two-aligned", codec::aligned_case(), cases, check_case);
    let cases = ctx.share(ctx.tier.pick(20_000, 400_000));
    engine::drive(ctx, rep, "piped", codec::codec_case(false), cases, check_piped);
    let cases = ctx.share(ctx.tier.pick(4_000, 100_000));
    {
        let _ballast = super::iovec_sm::Ballast::new(super::iovec_sm::BALLAST_MIB);
        engine::drive(ctx, rep, "random-with-ballast", codec::codec_case(false), cases, check_case);
    }
}

fn replay(_ctx: &Ctx, group: &str, case: &Value) -> CaseResult {
    if group.starts_with("small-scope") {
        hcobs_small::check_small_enc(&parse_case::<SmallEnc>(case)?, Focus::RoundTrip)
    } else if group == "piped" {
        check_piped(&parse_case::<CodecCase>(case)?)
    } else if group.ends_with("with-ballast") {
        super::iovec_sm::check_with_ballast(&parse_case::<CodecCase>(case)?, check_case)
    } else {
        check_case(&parse_case::<CodecCase>(case)?)
    }
}

pub fn def() -> PropDef {
    PropDef {
        id: "C01",
        rule: "A case is (payload description, encoder feeding plan, decoder feeding plan): the payload is a concatenation of segments with lengths biased to 0..8, 244..260, 63990..64030, 64254..64266 and bytes from FE/FD/00/FC-heavy alphabets, joined by FE FD-like tokens; each plan cuts its input into up to 12 pieces (cuts placed by fraction, near stuff sequences / chunk limits / chunk headers, or at absolute boundary positions), assigns an input method to each piece (borrow, copy, read_n+anchored, encode_read/decode_read with a scripted short-read/EINTR reader) and a consumer drain action after each call (consume slices, advance bytes, Read, everything, nothing). The power-of-two-aligned group places FE FD (or FE, FE FE FD, FE FD FE FD) after gaps of k*2^p-1+d bytes (p = 6..16, k = 1..4, d = -2..1) counted from the start of the input, from the end of the 252-byte first chunk or from the previous stuff sequence, and feeds half of the cases in one call, so that a stuff sequence straddles any power-of-two scan block of one call's slice. piped: the encoder is piped straight into a decoder through decode_read(&mut encoder.consumer(), ..) after every encoder call (asking for less or far more than is consumable), both codecs being moved in memory now and then; the decoded bytes must be the payload. One case in ten starts both codecs from an iovec that already holds a few bytes (new_from_iovec). Oracle: the decoder accepts the encoder's output and returns the payload. Non-trivial: payload has >= 252 bytes or contains FE FD, and at least one side was fed in >= 2 calls. Distinct: hash of the serialised case. The small-scope group enumerates every string over {FE,FD,00} up to max_len with four tiny limit pairs, every 2-way cut and copy/borrow choice on both sides, through the hcobs::verif hook.",
        assumptions: &[
            "scripted readers never return more than asked, never report end of file before the data ends, and never fail with a non-Interrupted error (C17 covers those)",
            "decoders are not fed after their first error",
        ],
        exhaustive_note: Some("small-scope-encoder: complete enumeration (see sub_reports)"),
        shards: |t: Tier| t.pick(8, 16),
        run,
        replay,
    }
}
