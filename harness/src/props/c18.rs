//! C18 — AtomicBaseTime readers and try_update never wait for a writer.
use std::sync::Arc;

use proptest::prelude::*;
use serde::{Deserialize, Serialize};
use serde_json::{json, Value};

use super::abt::{self, Event, Op, OpResult, Plan, Target};
use super::c14::{voucher_bits, VOUCH};
use super::{parse_case, PropDef};
use crate::engine::{self, CaseResult, Ctx, Fail, Outcome, Report, Tier};

#[derive(Clone, Copy, Debug, PartialEq, Eq, Hash, Serialize, Deserialize)]
pub enum Solo {
    Snapshot,
    Sequence,
    TryUpdate(u64),
    /// `nfs_voucher::get_base_time_unlocked` on the process-wide cell (writers are
    /// `observe_file_time` calls on a trusted file).
    NfsUnlocked,
}

#[derive(Clone, Debug, PartialEq, Eq, Hash, Serialize, Deserialize)]
pub struct Case {
    /// One or two writer programs.
    pub writers: Vec<Vec<Op>>,
    /// Each writer is suspended for good after this many of its hooked steps.
    pub suspend_after: Vec<u8>,
    pub solo: Solo,
    pub reads: Vec<u8>,
}

/// Hooked steps of one operation when it runs uninterrupted (used to classify suspension points).
const UPDATE_STEPS: usize = 8; // lock, seq load, 2 slot loads, 2 slot stores, seq store, unlock

fn nfs_file() -> &'static std::path::Path {
    use std::sync::OnceLock;
    static FILE: OnceLock<std::path::PathBuf> = OnceLock::new();
    FILE.get_or_init(|| {
        let dir = crate::engine::verif_root().join("harness/target/vp-tmp");
        let _ = std::fs::create_dir_all(&dir);
        let path = dir.join(format!("c18-trusted-{}", std::process::id()));
        vouched_time::nfs_voucher::add_trusted_path(path.clone()).expect("can register a trusted path on the harness's own file system");
        path
    })
}

pub fn check_case(case: &Case) -> CaseResult {
    let nfs = case.solo == Solo::NfsUnlocked;
    let n_writers = case.writers.len();
    let solo_tid = n_writers;
    let solo_op = match case.solo {
        Solo::Snapshot | Solo::NfsUnlocked => Op::Snapshot,
        Solo::Sequence => Op::Sequence,
        Solo::TryUpdate(t) => Op::TryUpdate(t),
    };
    let mut programs = case.writers.clone();
    programs.push(vec![solo_op]);
    let mut budgets: Vec<Option<usize>> = (0..n_writers).map(|i| Some(case.suspend_after.get(i).copied().unwrap_or(0) as usize)).collect();
    budgets.push(None);
    // Writers run first, one after the other, up to their budgets; then only the solo thread is runnable.
    let mut schedule: Vec<(u8, u8)> = vec![];
    for _ in 0..n_writers {
        schedule.push((0, 255));
    }
    let target = if nfs {
        let file = std::fs::File::open(nfs_file()).map_err(|e| Fail::new("harness:nfs-file", e.to_string()))?;
        let file = Arc::new(file);
        Target::External(Arc::new(move |tid, _i, op| {
            if tid == solo_tid {
                let now = time::OffsetDateTime::UNIX_EPOCH;
                let (b, v) = vouched_time::nfs_voucher::get_base_time_unlocked(now).expect("never fails");
                OpResult::Snapshot { base: b, voucher: voucher_bits(v) }
            } else {
                let _ = op;
                match vouched_time::nfs_voucher::observe_file_time(&file) {
                    Ok(_) => OpResult::Updated,
                    Err(e) => OpResult::Panicked(format!("observe_file_time failed: {e}")),
                }
            }
        }))
    } else {
        Target::Fresh
    };
    let run = abt::run(
        Plan {
            programs: programs.clone(),
            schedule,
            reads: case.reads.clone(),
            budgets,
            solo: Some(solo_tid),
        },
        target,
    );

    // Where were the writers when the solo thread ran?
    let solo_begin = run.trace.iter().position(|e| matches!(e, Event::OpBegin { tid, .. } if *tid == solo_tid));
    let solo_end = run.trace.iter().position(|e| matches!(e, Event::OpEnd { tid, .. } if *tid == solo_tid));
    let (Some(sb), Some(se)) = (solo_begin, solo_end) else {
        return Err(Fail::new("harness:no-solo-run", "the solo thread did not run".to_string()));
    };
    let before = &run.trace[..sb];
    let during = &run.trace[sb..se];
    let lock_held_by_writer = {
        let mut owner: Option<usize> = None;
        for e in before {
            match e {
                Event::Lock { tid, .. } | Event::TryLock { tid, ok: true, .. } => owner = Some(*tid),
                Event::Unlock { .. } => owner = None,
                _ => {}
            }
        }
        owner.is_some()
    };
    let writer_mid_slot_write = {
        // A writer stored to a slot word but has not committed the sequence word yet.
        let mut open: std::collections::HashMap<usize, usize> = Default::default();
        for e in before {
            if let Event::Store { tid, addr, .. } = e {
                if Some(*addr) == run.seq_addr {
                    open.remove(tid);
                } else {
                    *open.entry(*tid).or_insert(0) += 1;
                }
            }
        }
        open.values().any(|n| *n == 1) || (lock_held_by_writer && open.values().any(|n| *n >= 1))
    };
    let foreign_events_during = during.iter().any(|e| match e {
        Event::Load { tid, .. } | Event::Store { tid, .. } | Event::Lock { tid, .. } | Event::TryLock { tid, .. } | Event::Unlock { tid, .. } => *tid != solo_tid,
        _ => false,
    });
    let desc = format!(
        "{:?} with writers suspended after {:?} of their steps (writer holds the lock: {lock_held_by_writer}, slot half written: {writer_mid_slot_write})",
        case.solo, case.suspend_after
    );
    if run.livelock || run.final_read_unbounded {
        return Err(Fail::new("reader-unbounded", format!("{desc}: a thread took more than {} hooked steps (or a final snapshot with no writer running did not complete)", abt::STEP_LIMIT)));
    }
    if run.solo_blocked {
        return Err(Fail::new("waits-for-writer", format!("{desc}: the caller blocked and could only finish once a suspended writer was resumed")));
    }
    if foreign_events_during {
        return Err(Fail::new("harness:not-solo", "another thread ran while the solo thread was supposed to run alone".to_string()));
    }
    if let Some(OpResult::Panicked(msg)) = run.results[solo_tid].first() {
        return Err(Fail::new("panic", format!("{desc}: panicked: {msg}")));
    }
    let solo_locks = run.lock_calls[solo_tid];
    let solo_try_locks = run.try_lock_calls[solo_tid];
    let solo_loads = run.loads[solo_tid];
    let commits_so_far = before.iter().filter(|e| matches!(e, Event::Store { addr, .. } if Some(*addr) == run.seq_addr)).count();
    let stale_in_solo = during.iter().filter(|e| matches!(e, Event::Load { idx, latest, .. } if idx != latest)).count();
    match case.solo {
        Solo::Snapshot | Solo::NfsUnlocked | Solo::Sequence => {
            if solo_locks + solo_try_locks != 0 {
                return Err(Fail::new("reader-takes-lock", format!("{desc}: performed {solo_locks} lock and {solo_try_locks} try_lock operations")));
            }
            let (exact, bound) = if case.solo == Solo::Sequence { (1, 1) } else { (4, 4 * (1 + commits_so_far.max(if nfs { 64 } else { 0 }))) };
            if stale_in_solo == 0 && solo_loads != exact {
                return Err(Fail::new(
                    "reader-retries",
                    format!("{desc}: took {solo_loads} atomic loads although no write completed during the read (expected {exact})"),
                ));
            }
            if solo_loads > bound {
                return Err(Fail::new("reader-unbounded", format!("{desc}: took {solo_loads} atomic loads (bound {bound})")));
            }
        }
        Solo::TryUpdate(_) => {
            if solo_locks != 0 || solo_try_locks != 1 {
                return Err(Fail::new("try_update-locking", format!("{desc}: performed {solo_locks} lock and {solo_try_locks} try_lock operations (expected 0 and 1)")));
            }
            if lock_held_by_writer && run.results[solo_tid].first() != Some(&OpResult::TryUpdated(false)) {
                return Err(Fail::new("try_update-while-locked", format!("{desc}: returned {:?} while a suspended writer holds the lock", run.results[solo_tid].first())));
            }
            if run.steps[solo_tid] > 9 {
                return Err(Fail::new("try_update-unbounded", format!("{desc}: took {} steps", run.steps[solo_tid])));
            }
        }
    }
    // The snapshot itself must still be a valid pair (C13's concern, cheap to keep).
    if let (false, Some(OpResult::Snapshot { base, voucher })) = (nfs, run.results[solo_tid].first()) {
        let ok = *voucher == voucher_bits(VOUCH.vouch(*base));
        if !ok {
            return Err(Fail::new("torn-snapshot", format!("{desc}: returned ({base}, {voucher:#x})")));
        }
    }
    let _ = UPDATE_STEPS;
    Ok(Outcome::new(lock_held_by_writer && writer_mid_slot_write)
        .label_if(lock_held_by_writer, "writer_suspended_holding_lock")
        .label_if(writer_mid_slot_write, "slot_half_written")
        .label_if(n_writers == 2, "two_writers")
        .label_if(stale_in_solo > 0, "stale_read_in_solo")
        .label(match case.solo {
            Solo::Snapshot => "solo:snapshot",
            Solo::Sequence => "solo:sequence",
            Solo::TryUpdate(_) => "solo:try_update",
            Solo::NfsUnlocked => "solo:get_base_time_unlocked",
        }))
}

/// A reader interleaved with a writer that keeps committing inside the reader's
/// read windows (the writers-first cases above can never invalidate a read).
#[derive(Clone, Debug, PartialEq, Eq, Hash, Serialize, Deserialize)]
pub struct StarveCase {
    pub writer: Vec<Op>,
    /// The reader's operations (snapshot or sequence).
    pub reader: Vec<Op>,
    /// Alternating segments: the reader runs `1 + r` scheduled points, then the writer `1 + w`.
    pub segments: Vec<(u8, u8)>,
    /// The writer is frozen for good after this many of its hooked steps (None: never).
    pub freeze_writer_after: Option<u16>,
}

pub fn check_starve(case: &StarveCase) -> CaseResult {
    const WRITER: usize = 0;
    const READER: usize = 1;
    let mut schedule = vec![];
    for (r, w) in &case.segments {
        // runnable = [writer, reader] while both are ready: 255 picks the reader, 0 the writer.
        schedule.push((255u8, *r));
        schedule.push((0u8, *w));
    }
    // Once the schedule is exhausted the scheduler would run the writer to completion
    // first; let the reader finish first instead (the writer may be frozen).
    for _ in 0..40 {
        schedule.push((255u8, 255u8));
    }
    let run = abt::run(
        Plan {
            programs: vec![case.writer.clone(), case.reader.clone()],
            schedule,
            reads: vec![],
            budgets: vec![case.freeze_writer_after.map(|k| k as usize), None],
            solo: Some(READER),
        },
        Target::Fresh,
    );
    let desc = format!(
        "reader {:?} interleaved with {} writer operations (segments {:?}, writer frozen after {:?} steps)",
        case.reader,
        case.writer.len(),
        case.segments,
        case.freeze_writer_after
    );
    if run.livelock || run.final_read_unbounded {
        return Err(Fail::new("reader-unbounded", format!("{desc}: a thread took more than {} hooked steps (or a final snapshot with no writer running did not complete)", abt::STEP_LIMIT)));
    }
    if run.solo_blocked {
        return Err(Fail::new("waits-for-writer", format!("{desc}: the reader blocked and could only finish once the writer ran again")));
    }
    if let Some(OpResult::Panicked(msg)) = run.results[READER].iter().find(|r| matches!(r, OpResult::Panicked(_))) {
        return Err(Fail::new("panic", format!("{desc}: panicked: {msg}")));
    }
    if run.lock_calls[READER] + run.try_lock_calls[READER] != 0 {
        return Err(Fail::new(
            "reader-takes-lock",
            format!("{desc}: the reader performed {} lock and {} try_lock operations", run.lock_calls[READER], run.try_lock_calls[READER]),
        ));
    }
    // Per reader operation: loads against commits that landed between its begin and end.
    let mut max_invalidated = 0usize;
    let mut writer_locked_at_some_read = false;
    for (i, op) in case.reader.iter().enumerate() {
        let b = run.trace.iter().position(|e| matches!(e, Event::OpBegin { tid, op, .. } if *tid == READER && *op == i));
        let e = run.trace.iter().position(|e| matches!(e, Event::OpEnd { tid, op } if *tid == READER && *op == i));
        let (Some(b), Some(e)) = (b, e) else {
            return Err(Fail::new("harness:no-reader-run", format!("{desc}: reader operation {i} did not run")));
        };
        let window = &run.trace[b..e];
        let loads = window.iter().filter(|ev| matches!(ev, Event::Load { tid, .. } if *tid == READER)).count();
        let commits = window.iter().filter(|ev| matches!(ev, Event::Store { tid, addr, .. } if *tid == WRITER && Some(*addr) == run.seq_addr)).count();
        let mut owner = false;
        for ev in &run.trace[..e] {
            match ev {
                Event::Lock { tid, .. } | Event::TryLock { tid, ok: true, .. } if *tid == WRITER => owner = true,
                Event::Unlock { tid, .. } if *tid == WRITER => owner = false,
                Event::Load { tid, .. } if *tid == READER && owner => writer_locked_at_some_read = true,
                _ => {}
            }
        }
        let (exact, per_retry) = if *op == Op::Sequence { (1, 0) } else { (4, 4) };
        if commits == 0 && loads != exact {
            return Err(Fail::new("reader-retries", format!("{desc}: operation {i} took {loads} atomic loads although no write completed during it (expected {exact})")));
        }
        if loads > exact + per_retry * commits {
            return Err(Fail::new("reader-unbounded", format!("{desc}: operation {i} took {loads} atomic loads with {commits} writes completed during it")));
        }
        if *op == Op::Snapshot && loads > 4 {
            // Retries reuse the validating load: 3 more loads each.
            max_invalidated = max_invalidated.max((loads - 4 + 2) / 3);
        }
        if let Some(OpResult::Snapshot { base, voucher }) = run.results[READER].get(i) {
            if *voucher != voucher_bits(VOUCH.vouch(*base)) {
                return Err(Fail::new("torn-snapshot", format!("{desc}: operation {i} returned ({base}, {voucher:#x})")));
            }
        }
    }
    let bucket = match max_invalidated {
        0 => "invalidated_reads:0",
        1..=3 => "invalidated_reads:1-3",
        4..=7 => "invalidated_reads:4-7",
        8..=15 => "invalidated_reads:8-15",
        _ => "invalidated_reads:16+",
    };
    Ok(Outcome::new(max_invalidated >= 1)
        .label(bucket)
        .label_if(writer_locked_at_some_read, "read_while_writer_holds_lock")
        .label_if(case.freeze_writer_after.is_some(), "writer_frozen"))
}

fn starve_strategy() -> impl Strategy<Value = StarveCase> {
    // Writers whose updates all commit (older values are skipped without a commit).
    let ascending = |len: std::ops::Range<usize>| {
        proptest::collection::vec((0u64..2, prop_oneof![5 => Just(false), 1 => Just(true)]), len).prop_map(|v| {
            let mut t = 0;
            v.into_iter()
                .map(|(d, is_try)| {
                    t += d;
                    if is_try {
                        Op::TryUpdate(t)
                    } else {
                        Op::Update(t)
                    }
                })
                .collect::<Vec<Op>>()
        })
    };
    let reader = prop_oneof![3 => Just(vec![Op::Snapshot]), 1 => Just(vec![Op::Snapshot, Op::Snapshot]), 1 => Just(vec![Op::Sequence, Op::Snapshot])];
    prop_oneof![
        // One whole committing update (begin + 8 steps) per writer segment and at most one
        // read attempt per reader segment: every attempt is invalidated until the writer is done or frozen.
        3 => (ascending(1..34), reader.clone(), proptest::collection::vec(0u8..3, 36), 0u8..4, proptest::option::weighted(0.6, (0u16..34, 0u16..9))).prop_map(
            |(writer, reader, rs, lead, freeze)| StarveCase {
                segments: rs.into_iter().enumerate().map(|(i, r)| (r, if i == 0 { 8 + lead } else { 8 })).collect(),
                freeze_writer_after: freeze.map(|(k, j)| k.min(writer.len() as u16) * 8 + j),
                writer,
                reader,
            }
        ),
        1 => (ascending(1..24), reader.clone(), proptest::collection::vec((0u8..3, 6u8..12), 0..24), proptest::option::weighted(0.5, 0u16..200))
            .prop_map(|(writer, reader, segments, freeze_writer_after)| StarveCase { writer, reader, segments, freeze_writer_after }),
        1 => (proptest::collection::vec(writer_op(), 1..24), reader, proptest::collection::vec((0u8..6, 0u8..20), 0..24), proptest::option::weighted(0.5, 0u16..200))
            .prop_map(|(writer, reader, segments, freeze_writer_after)| StarveCase { writer, reader, segments, freeze_writer_after }),
    ]
}

fn writer_op() -> impl Strategy<Value = Op> {
    // (one update in nine carries a base time whose valid voucher is all zeroes, one, all ones, ...)
    let remarkable = (0usize..8).prop_map(|k| {
        let t = super::c14::remarkable_bases();
        t.get(k % t.len().max(1)).copied().unwrap_or(3)
    });
    prop_oneof![6 => (1u64..7).prop_map(Op::Update), 2 => (1u64..7).prop_map(Op::TryUpdate), 1 => remarkable.prop_map(Op::Update)]
}

fn case_strategy() -> impl Strategy<Value = Case> {
    (
        proptest::collection::vec(proptest::collection::vec(writer_op(), 1..4), 1..3),
        proptest::collection::vec(0u8..28, 2),
        prop_oneof![4 => Just(Solo::Snapshot), 1 => Just(Solo::Sequence), 3 => (1u64..8).prop_map(Solo::TryUpdate)],
        proptest::collection::vec(prop_oneof![2 => Just(0u8), 1 => 1u8..4], 0..12),
    )
        .prop_map(|(writers, suspend_after, solo, reads)| Case {
            writers,
            suspend_after,
            solo,
            reads,
        })
}

/// Every suspension point of one writer doing two updates, and of two writers, for every kind of solo caller.
fn all_suspension_points() -> Vec<Case> {
    let mut out = vec![];
    for solo in [Solo::Snapshot, Solo::Sequence, Solo::TryUpdate(1), Solo::TryUpdate(9)] {
        for k in 0..=(2 * UPDATE_STEPS as u8 + 1) {
            out.push(Case {
                writers: vec![vec![Op::Update(3), Op::Update(5)]],
                suspend_after: vec![k],
                solo,
                reads: vec![],
            });
            out.push(Case {
                writers: vec![vec![Op::TryUpdate(3), Op::Update(2)]],
                suspend_after: vec![k],
                solo,
                reads: vec![],
            });
        }
        for a in 0..=(UPDATE_STEPS as u8 + 1) {
            for b in 0..=(UPDATE_STEPS as u8 + 1) {
                out.push(Case {
                    writers: vec![vec![Op::Update(4)], vec![Op::Update(6)]],
                    suspend_after: vec![a, b],
                    solo,
                    reads: vec![],
                });
            }
        }
    }
    out
}

fn nfs_cases() -> Vec<Case> {
    (0..=12u8)
        .map(|k| Case {
            writers: vec![vec![Op::Update(0)]],
            suspend_after: vec![k],
            solo: Solo::NfsUnlocked,
            reads: vec![],
        })
        .collect()
}

pub fn run(ctx: &Ctx, rep: &mut Report) {
    engine::enumerate(ctx, rep, "every-suspension-point", all_suspension_points().into_iter(), check_case);
    rep.sub_set("every-suspension-point", "exhaustive", json!(true));
    rep.sub_set("every-suspension-point", "what", json!("one writer (two updates) suspended after 0..17 of its hooked steps, and two writers suspended after 0..9 steps each, x solo caller in {snapshot, sequence, try_update(older), try_update(newer)}"));
    engine::enumerate(ctx, rep, "nfs-unlocked", nfs_cases().into_iter(), check_case);
    let cases = ctx.share(ctx.tier.pick(120_000, 3_000_000));
    engine::drive(ctx, rep, "random", case_strategy(), cases, check_case);
    let cases = ctx.share(ctx.tier.pick(32_000, 1_200_000));
    engine::drive(ctx, rep, "starved-reader", starve_strategy(), cases, check_starve);
}

fn replay(_ctx: &Ctx, group: &str, case: &Value) -> CaseResult {
    if group == "starved-reader" {
        return check_starve(&parse_case::<StarveCase>(case)?);
    }
    check_case(&parse_case::<Case>(case)?)
}

pub fn def() -> PropDef {
    PropDef {
        id: "C18",
        rule: "Same hook and scheduler as C13. A case is (one or two writer programs of update / try_update operations, a suspension point for each writer = the number of its hooked steps - lock, try_lock, every atomic load and store, unlock - after which it is never scheduled again, a solo caller: snapshot, sequence, try_update(t) or nfs_voucher::get_base_time_unlocked, and reads-from choices). The writers run up to their suspension points, then the solo caller is the only thread the scheduler will run; the scheduler reports if it blocks (it is then resumed together with the writers so that the case ends cleanly). Oracles: the solo caller finishes while the writers stay suspended; snapshot / sequence / get_base_time_unlocked perform no lock or try_lock operation; with latest-only reads a snapshot takes exactly four atomic loads (no write completes during a solo run, so there is nothing to retry for) and with generated stale reads at most 4*(1+commits); try_update performs exactly one try_lock and no lock, and returns false whenever a suspended writer holds the lock. every-suspension-point enumerates all suspension points of one writer doing two updates (0..17 steps) and of two writers (0..9 steps each) for four solo callers; nfs-unlocked suspends an observe_file_time call on a trusted file inside the process-wide cell at every step and runs get_base_time_unlocked alone. starved-reader: a reader (snapshot, two snapshots, or sequence then snapshot) is interleaved with one writer doing up to 33 updates whose values never decrease (so every one commits); in three cases out of five the schedule alternates at most one read attempt with exactly one whole update, so that every read attempt is invalidated (the evidence labels count 0, 1-3, 4-7, 8-15, 16+ consecutive invalidated attempts), and the writer may be frozen for good after any number of its steps; oracles: the reader performs no lock / try_lock, is never blocked, takes exactly 4 loads when no commit landed inside the operation and at most 4 + 4*commits otherwise, and returns a vouched pair. Non-trivial: a writer is suspended while holding the lock with its slot half written; (starved-reader) at least one read attempt was invalidated. Distinct: hash of the serialised case / by enumeration.",
        assumptions: &["liveness is checked as 'terminates within a step budget while every peer is frozen', which is what the statement asks", "hook: vouched_time/verif-hooks"],
        exhaustive_note: Some("every-suspension-point and nfs-unlocked: complete enumerations of suspension points"),
        shards: |_t: Tier| 16,
        run,
        replay,
    }
}
