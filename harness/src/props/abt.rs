//! Execution engine for AtomicBaseTime (C13, C18): the harness owns the
//! thread schedule (a baton passed between OS threads at every hooked
//! atomic / lock operation) and the memory model (a view-based
//! release/acquire model: a load may read any message at or above the
//! thread's view of that location; which one is a generated choice).
use std::collections::HashMap;
use std::sync::atomic::Ordering;
use std::sync::{Arc, Condvar, Mutex};

use serde::{Deserialize, Serialize};
use vouched_time::verif_sync::{set_thread_hook, SyncHook};
use vouched_time::AtomicBaseTime;

use super::c14::{voucher_bits, VOUCH};

/// Per-location lower bounds (index into the location's modification order).
pub type View = HashMap<usize, usize>;

fn join(into: &mut View, from: &View) {
    for (k, v) in from {
        let e = into.entry(*k).or_insert(0);
        if *e < *v {
            *e = *v;
        }
    }
}

#[derive(Clone, Debug)]
struct Msg {
    val: u64,
    /// View released with this store (None for relaxed stores and initial values).
    view: Option<View>,
}

#[derive(Clone, Copy, Debug, PartialEq, Eq)]
enum Status {
    NotStarted,
    Ready,
    Blocked(usize),
    Finished,
}

#[derive(Debug)]
struct TState {
    status: Status,
    view: View,
    steps: usize,
    lock_calls: usize,
    try_lock_calls: usize,
    loads: usize,
    current_op: usize,
    /// The thread actually took the baton (as opposed to merely having been designated).
    holding: bool,
}

#[derive(Debug, Default)]
struct MutexState {
    owner: Option<usize>,
    view: View,
}

#[derive(Clone, Debug, PartialEq)]
pub enum Event {
    Load { tid: usize, op: usize, addr: usize, idx: usize, latest: usize, val: u64 },
    Store { tid: usize, op: usize, addr: usize, idx: usize, val: u64 },
    Lock { tid: usize, op: usize },
    TryLock { tid: usize, op: usize, ok: bool },
    Unlock { tid: usize, op: usize },
    OpBegin { tid: usize, op: usize, seq_view: usize, seq_latest: usize },
    OpEnd { tid: usize, op: usize },
}

struct State {
    current: Option<usize>,
    threads: Vec<TState>,
    locs: HashMap<usize, Vec<Msg>>,
    mutexes: HashMap<usize, MutexState>,
    schedule: Vec<(u8, u8)>,
    sched_pos: usize,
    seg_left: usize,
    seg_thread: Option<usize>,
    reads: Vec<u8>,
    read_pos: usize,
    trace: Vec<Event>,
    free_run: bool,
    /// Threads the scheduler may run (C18 freezes the writers).
    allowed: Vec<bool>,
    /// The thread that must run alone (C18), if any.
    solo: Option<usize>,
    solo_blocked: bool,
    stuck: bool,
    livelock: bool,
    stale_reads: usize,
    /// Address of the sequence word (learnt from `sequence()` at start).
    seq_addr: Option<usize>,
    /// When the writers of a C18 case have used up their step budgets.
    budgets: Vec<Option<usize>>,
}

pub struct Exec {
    st: Mutex<State>,
    cv: Condvar,
}

/// No correct operation sequence of the sizes generated here needs more hooked steps per thread.
pub const STEP_LIMIT: usize = 300;
pub const LIVELOCK_MARKER: &str = "harness step budget exceeded";

thread_local! { static TID: std::cell::Cell<usize> = const { std::cell::Cell::new(usize::MAX) }; }

impl State {
    fn runnable(&self) -> Vec<usize> {
        (0..self.threads.len())
            .filter(|&t| self.allowed[t] && self.threads[t].status == Status::Ready && self.budgets[t].map(|b| self.threads[t].steps < b).unwrap_or(true))
            .collect()
    }

    /// Picks who runs next; called by whoever holds the baton when it gives it up.
    fn choose_next(&mut self) {
        let runnable = self.runnable();
        if runnable.is_empty() {
            self.current = None;
            let waiting = (0..self.threads.len()).any(|t| self.threads[t].status != Status::Finished);
            if waiting {
                // Nobody the scheduler may run can make progress.
                self.stuck = true;
            }
            return;
        }
        if let Some(t) = self.seg_thread {
            if self.seg_left > 0 && runnable.contains(&t) {
                self.seg_left -= 1;
                self.current = Some(t);
                return;
            }
        }
        if self.sched_pos < self.schedule.len() {
            let (c, n) = self.schedule[self.sched_pos];
            self.sched_pos += 1;
            let t = runnable[(c as usize * runnable.len()) >> 8];
            self.seg_thread = Some(t);
            self.seg_left = n as usize;
            self.current = Some(t);
        } else {
            // Schedule exhausted: run the lowest runnable thread to completion.
            self.seg_thread = Some(runnable[0]);
            self.seg_left = usize::MAX;
            self.current = Some(runnable[0]);
        }
    }
}

impl Exec {
    /// Blocks until this thread is given the baton for one more step.
    fn acquire_turn(&self, tid: usize) -> std::sync::MutexGuard<'_, State> {
        self.acquire_turn_opt(tid, true)
    }

    fn acquire_turn_opt(&self, tid: usize, enforce_budget: bool) -> std::sync::MutexGuard<'_, State> {
        let mut st = self.st.lock().unwrap();
        if st.threads[tid].status != Status::Finished {
            st.threads[tid].status = Status::Ready;
        }
        if st.threads[tid].holding {
            // Between two of our own steps: hand the baton to whoever is next.
            // (A thread that has merely been designated, and arrives here for the
            // first time, must not pass the baton on.)
            st.threads[tid].holding = false;
            st.choose_next();
            self.cv.notify_all();
        }
        while st.current != Some(tid) && !st.free_run {
            st = self.cv.wait(st).unwrap();
        }
        st.threads[tid].holding = true;
        st.threads[tid].steps += 1;
        if enforce_budget && st.threads[tid].steps > STEP_LIMIT {
            // A thread that spins (a reader that never validates, a retry loop that
            // never ends): stop it by unwinding out of the operation.
            st.livelock = true;
            drop(st);
            panic!("{LIVELOCK_MARKER}: more than {STEP_LIMIT} hooked steps in one thread");
        }
        st
    }
}

impl SyncHook for Exec {
    fn load(&self, addr: usize, real: u64, order: Ordering) -> u64 {
        let tid = TID.with(|t| t.get());
        let mut st = self.acquire_turn(tid);
        let st = &mut *st;
        st.threads[tid].loads += 1;
        let op = st.threads[tid].current_op;
        let msgs = st.locs.entry(addr).or_insert_with(|| vec![Msg { val: real, view: None }]);
        let min = *st.threads[tid].view.get(&addr).unwrap_or(&0);
        let latest = msgs.len() - 1;
        let span = latest - min + 1;
        let idx = if order == Ordering::SeqCst || span == 1 {
            latest
        } else {
            let c = if st.read_pos < st.reads.len() { st.reads[st.read_pos] } else { 0 };
            st.read_pos += 1;
            latest - (c as usize % span)
        };
        if idx != latest {
            st.stale_reads += 1;
        }
        let msg = msgs[idx].clone();
        st.threads[tid].view.insert(addr, idx);
        if matches!(order, Ordering::Acquire | Ordering::SeqCst | Ordering::AcqRel) {
            if let Some(v) = &msg.view {
                join(&mut st.threads[tid].view, v);
            }
        }
        st.trace.push(Event::Load { tid, op, addr, idx, latest, val: msg.val });
        msg.val
    }

    fn store(&self, addr: usize, real: u64, value: u64, order: Ordering) {
        let tid = TID.with(|t| t.get());
        let mut st = self.acquire_turn(tid);
        let st = &mut *st;
        let op = st.threads[tid].current_op;
        let msgs = st.locs.entry(addr).or_insert_with(|| vec![Msg { val: real, view: None }]);
        let idx = msgs.len();
        st.threads[tid].view.insert(addr, idx);
        let view = if matches!(order, Ordering::Release | Ordering::SeqCst | Ordering::AcqRel) { Some(st.threads[tid].view.clone()) } else { None };
        msgs.push(Msg { val: value, view });
        st.trace.push(Event::Store { tid, op, addr, idx, val: value });
    }

    fn lock(&self, addr: usize) {
        let tid = TID.with(|t| t.get());
        let mut st = self.acquire_turn(tid);
        st.threads[tid].lock_calls += 1;
        loop {
            let free = st.mutexes.entry(addr).or_default().owner.is_none() || st.free_run;
            if free {
                let s = &mut *st;
                let m = s.mutexes.entry(addr).or_default();
                m.owner = Some(tid);
                let v = m.view.clone();
                join(&mut s.threads[tid].view, &v);
                let op = s.threads[tid].current_op;
                s.trace.push(Event::Lock { tid, op });
                return;
            }
            if st.solo == Some(tid) {
                st.solo_blocked = true;
            }
            st.threads[tid].status = Status::Blocked(addr);
            st.threads[tid].holding = false;
            st.choose_next();
            self.cv.notify_all();
            while !(st.free_run || st.current == Some(tid)) {
                st = self.cv.wait(st).unwrap();
            }
            st.threads[tid].holding = true;
        }
    }

    fn try_lock(&self, addr: usize) -> bool {
        let tid = TID.with(|t| t.get());
        let mut st = self.acquire_turn(tid);
        st.threads[tid].try_lock_calls += 1;
        let st = &mut *st;
        let op = st.threads[tid].current_op;
        let m = st.mutexes.entry(addr).or_default();
        let ok = m.owner.is_none();
        if ok {
            m.owner = Some(tid);
            let v = m.view.clone();
            join(&mut st.threads[tid].view, &v);
        }
        st.trace.push(Event::TryLock { tid, op, ok });
        ok
    }

    fn unlock(&self, addr: usize) {
        let tid = TID.with(|t| t.get());
        let mut st = self.acquire_turn(tid);
        let st = &mut *st;
        let op = st.threads[tid].current_op;
        let view = st.threads[tid].view.clone();
        let m = st.mutexes.entry(addr).or_default();
        m.owner = None;
        m.view = view;
        for t in st.threads.iter_mut() {
            if t.status == Status::Blocked(addr) {
                t.status = Status::Ready;
            }
        }
        st.trace.push(Event::Unlock { tid, op });
    }
}

#[derive(Clone, Copy, Debug, PartialEq, Eq, Hash, Serialize, Deserialize)]
pub enum Op {
    Snapshot,
    Update(u64),
    TryUpdate(u64),
    Sequence,
    /// `update((t, voucher for t + 1))`: the crate asserts the pair before touching anything,
    /// so the call panics (unless the base time is older and the update is skipped first).
    UpdateBad(u64),
    /// `try_update` with the same mismatched pair.
    TryUpdateBad(u64),
    /// A valid `update` made from a destructor while the thread unwinds from an unrelated panic
    /// (a guard that publishes a last base time on its way out): an update like any other.
    UpdateUnwinding(u64),
}

#[derive(Clone, Debug, PartialEq)]
pub enum OpResult {
    Snapshot { base: u64, voucher: u64 },
    Updated,
    TryUpdated(bool),
    Sequence(u64),
    Panicked(String),
}

#[derive(Debug)]
pub struct Outcome {
    pub results: Vec<Vec<OpResult>>,
    pub trace: Vec<Event>,
    pub stuck: bool,
    pub livelock: bool,
    pub solo_blocked: bool,
    pub steps: Vec<usize>,
    pub loads: Vec<usize>,
    pub lock_calls: Vec<usize>,
    pub try_lock_calls: Vec<usize>,
    pub stale_reads: usize,
    pub seq_addr: Option<usize>,
    /// The pair read without any hook after every thread was joined.
    pub final_pair: (u64, u64),
    pub final_sequence: u64,
    /// Pair and sequence number of another, untouched instance created after the run
    /// (instances share nothing: it must still be at the epoch).
    pub bystander_pair: (u64, u64),
    pub bystander_sequence: u64,
    /// The final snapshot (all threads joined, nobody writing) did not complete within 2000 loads.
    pub final_read_unbounded: bool,
}

pub struct Plan {
    pub programs: Vec<Vec<Op>>,
    pub schedule: Vec<(u8, u8)>,
    pub reads: Vec<u8>,
    /// C18: step budget per thread (None = unlimited) and the thread that then runs alone.
    pub budgets: Vec<Option<usize>>,
    pub solo: Option<usize>,
}

/// What the threads operate on.
pub enum Target {
    Fresh,
    /// The process-wide cell behind `nfs_voucher` (C18's unlocked variant); the closure
    /// performs one operation of a program on it.
    External(Arc<dyn Fn(usize, usize, &Op) -> OpResult + Send + Sync>),
}

pub fn run(plan: Plan, target: Target) -> Outcome {
    let n = plan.programs.len();
    let abt = Arc::new(if n % 2 == 1 { AtomicBaseTime::default() } else { AtomicBaseTime::new() });
    // Learn the address of the sequence word: install a probing hook for one `sequence()` call.
    struct Probe(Mutex<Option<usize>>);
    impl SyncHook for Probe {
        fn load(&self, addr: usize, real: u64, _order: Ordering) -> u64 {
            *self.0.lock().unwrap() = Some(addr);
            real
        }
        fn store(&self, _addr: usize, _real: u64, _value: u64, _order: Ordering) {}
        fn lock(&self, _addr: usize) {}
        fn try_lock(&self, _addr: usize) -> bool {
            true
        }
        fn unlock(&self, _addr: usize) {}
    }
    let seq_addr = match &target {
        Target::Fresh => {
            let probe = Arc::new(Probe(Mutex::new(None)));
            set_thread_hook(Some(probe.clone()));
            let _ = abt.sequence();
            set_thread_hook(None);
            let a = *probe.0.lock().unwrap();
            a
        }
        Target::External(_) => None,
    };

    let exec = Arc::new(Exec {
        st: Mutex::new(State {
            current: None,
            threads: (0..n)
                .map(|_| TState {
                    status: Status::NotStarted,
                    view: View::new(),
                    steps: 0,
                    lock_calls: 0,
                    try_lock_calls: 0,
                    loads: 0,
                    current_op: 0,
                    holding: false,
                })
                .collect(),
            locs: HashMap::new(),
            mutexes: HashMap::new(),
            schedule: plan.schedule,
            sched_pos: 0,
            seg_left: 0,
            seg_thread: None,
            reads: plan.reads,
            read_pos: 0,
            trace: vec![],
            free_run: false,
            allowed: vec![true; n],
            solo: plan.solo,
            solo_blocked: false,
            stuck: false,
            livelock: false,
            stale_reads: 0,
            seq_addr,
            budgets: if plan.budgets.is_empty() { vec![None; n] } else { plan.budgets },
        }),
        cv: Condvar::new(),
    });

    let external = match &target {
        Target::External(f) => Some(f.clone()),
        Target::Fresh => None,
    };
    let mut handles = vec![];
    for (tid, prog) in plan.programs.iter().cloned().enumerate() {
        let exec = exec.clone();
        let abt = abt.clone();
        let external = external.clone();
        handles.push(std::thread::spawn(move || {
            TID.with(|t| t.set(tid));
            let hook: Arc<dyn SyncHook> = exec.clone();
            set_thread_hook(Some(hook));
            {
                let mut st = exec.st.lock().unwrap();
                st.threads[tid].status = Status::Ready;
                exec.cv.notify_all();
            }
            // Whatever happens to this thread (including an unwinding panic), it must
            // end up Finished and give the baton away, or the controller waits forever.
            struct Finish {
                exec: Arc<Exec>,
                tid: usize,
            }
            impl Drop for Finish {
                fn drop(&mut self) {
                    set_thread_hook(None);
                    let mut st = match self.exec.st.lock() {
                        Ok(g) => g,
                        Err(p) => p.into_inner(),
                    };
                    st.threads[self.tid].status = Status::Finished;
                    if st.threads[self.tid].holding {
                        st.threads[self.tid].holding = false;
                        st.choose_next();
                    }
                    self.exec.cv.notify_all();
                }
            }
            let finish = Finish { exec: exec.clone(), tid };
            let mut out = vec![];
            for (i, op) in prog.iter().enumerate() {
                {
                    // Wait for a turn before the operation begins, so that "begin" is a scheduled point.
                    let mut st = exec.acquire_turn_opt(tid, false);
                    st.threads[tid].steps -= 1; // the begin marker is not a step of the operation
                    st.threads[tid].current_op = i;
                    let (seq_view, seq_latest) = match st.seq_addr {
                        Some(a) => (*st.threads[tid].view.get(&a).unwrap_or(&0), st.locs.get(&a).map(|m| m.len() - 1).unwrap_or(0)),
                        None => (0, 0),
                    };
                    st.trace.push(Event::OpBegin { tid, op: i, seq_view, seq_latest });
                }
                let r = crate::engine::panics::catch(|| match (&external, op) {
                    (Some(f), op) => f(tid, i, op),
                    (None, Op::Snapshot) => {
                        let (b, v) = abt.snapshot();
                        OpResult::Snapshot { base: b, voucher: voucher_bits(v) }
                    }
                    (None, Op::Update(b)) => {
                        abt.update((*b, VOUCH.vouch(*b)));
                        OpResult::Updated
                    }
                    (None, Op::TryUpdate(b)) => OpResult::TryUpdated(abt.try_update((*b, VOUCH.vouch(*b)))),
                    (None, Op::Sequence) => OpResult::Sequence(abt.sequence()),
                    (None, Op::UpdateBad(b)) => {
                        abt.update((*b, VOUCH.vouch(b.wrapping_add(1))));
                        OpResult::Updated
                    }
                    (None, Op::TryUpdateBad(b)) => OpResult::TryUpdated(abt.try_update((*b, VOUCH.vouch(b.wrapping_add(1))))),
                    (None, Op::UpdateUnwinding(b)) => {
                        struct OnTheWayOut<'a>(&'a AtomicBaseTime, u64);
                        impl Drop for OnTheWayOut<'_> {
                            fn drop(&mut self) {
                                self.0.update((self.1, VOUCH.vouch(self.1)));
                            }
                        }
                        let unrelated = crate::engine::panics::catch(|| {
                            let _guard = OnTheWayOut(&abt, *b);
                            panic!("an unrelated panic in the caller's code");
                        });
                        match unrelated {
                            Err(p) if p.describe().contains("unrelated panic") => OpResult::Updated,
                            Err(p) => OpResult::Panicked(p.describe()),
                            Ok(()) => OpResult::Panicked("the caller's panic vanished".into()),
                        }
                    }
                });
                let r = match r {
                    Ok(r) => r,
                    Err(p) => OpResult::Panicked(p.describe()),
                };
                {
                    let mut st = exec.st.lock().unwrap();
                    st.trace.push(Event::OpEnd { tid, op: i });
                }
                out.push(r);
            }
            drop(finish);
            out
        }));
    }

    // Controller: wait for every thread to register, start the schedule, watch for completion.
    {
        let mut st = exec.st.lock().unwrap();
        while st.threads.iter().any(|t| t.status == Status::NotStarted) {
            st = exec.cv.wait(st).unwrap();
        }
        st.choose_next();
        exec.cv.notify_all();
        loop {
            if st.threads.iter().all(|t| t.status == Status::Finished) {
                break;
            }
            if let Some(solo) = st.solo {
                // C18: once the solo thread is done, thaw everybody.
                if st.threads[solo].status == Status::Finished && st.budgets.iter().any(|b| b.is_some()) {
                    for b in st.budgets.iter_mut() {
                        *b = None;
                    }
                    st.stuck = false;
                    st.choose_next();
                    exec.cv.notify_all();
                }
            }
            if st.stuck {
                let solo_done = st.solo.map(|s| st.threads[s].status == Status::Finished).unwrap_or(true);
                if !solo_done {
                    // The solo thread cannot finish on its own: record it and let everything run.
                    st.solo_blocked = true;
                }
                st.free_run = true;
                for b in st.budgets.iter_mut() {
                    *b = None;
                }
                exec.cv.notify_all();
            }
            st = exec.cv.wait_timeout(st, std::time::Duration::from_millis(20)).unwrap().0;
        }
    }
    let results: Vec<Vec<OpResult>> = handles.into_iter().map(|h| h.join().unwrap_or_else(|_| vec![OpResult::Panicked("thread died".into())])).collect();
    // Final reads, with every thread joined: nobody writes any more, so a snapshot needs four
    // loads.  They run under a hook that only counts and gives up after 2000 loads, so that a
    // reader that spins on a quiescent cell is reported instead of hanging the harness.
    struct Bounded(std::sync::atomic::AtomicUsize);
    impl SyncHook for Bounded {
        fn load(&self, _addr: usize, real: u64, _order: Ordering) -> u64 {
            if self.0.fetch_add(1, Ordering::Relaxed) > 2000 {
                panic!("{LIVELOCK_MARKER}: more than 2000 loads in a read with no writer running");
            }
            real
        }
        fn store(&self, _addr: usize, _real: u64, _value: u64, _order: Ordering) {}
        fn lock(&self, _addr: usize) {}
        fn try_lock(&self, _addr: usize) -> bool {
            true
        }
        fn unlock(&self, _addr: usize) {}
    }
    let bystander = AtomicBaseTime::new();
    set_thread_hook(Some(Arc::new(Bounded(std::sync::atomic::AtomicUsize::new(0)))));
    let finals = crate::engine::panics::catch(|| {
        let (b, v) = abt.snapshot();
        let (bb, bv) = bystander.snapshot();
        ((b, voucher_bits(v)), abt.sequence(), (bb, voucher_bits(bv)), bystander.sequence())
    });
    set_thread_hook(None);
    let final_read_unbounded = finals.is_err();
    let (final_pair, final_sequence, bystander_pair, bystander_sequence) = finals.unwrap_or(((u64::MAX, 0), u64::MAX, (0, voucher_bits(VOUCH.vouch(0))), 0));
    let st = exec.st.lock().unwrap();
    Outcome {
        results,
        trace: st.trace.clone(),
        stuck: st.stuck,
        livelock: st.livelock,
        solo_blocked: st.solo_blocked,
        steps: st.threads.iter().map(|t| t.steps).collect(),
        loads: st.threads.iter().map(|t| t.loads).collect(),
        lock_calls: st.threads.iter().map(|t| t.lock_calls).collect(),
        try_lock_calls: st.threads.iter().map(|t| t.try_lock_calls).collect(),
        stale_reads: st.stale_reads,
        seq_addr: st.seq_addr,
        final_pair,
        final_sequence,
        bystander_pair,
        bystander_sequence,
        final_read_unbounded,
    }
}
