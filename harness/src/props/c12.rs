//! C12 — MessageView is total on untrusted bytes and its accessors agree.
use std::borrow::Cow;

use proptest::prelude::*;
use rough_tlv::{MessageView, Tag};
use serde::{Deserialize, Serialize};
use serde_json::{json, Value};

use super::{parse_case, PropDef};
use crate::engine::bytespec::{show, Cut, Hex};
use crate::engine::{self, panics, CaseResult, Ctx, Fail, Outcome, Report, Tier};
use crate::refimpl::tlv_ref::{self, Invalid};

/// A header shape, materialised into bytes.
#[derive(Clone, Debug, PartialEq, Eq, Hash, Serialize, Deserialize)]
pub enum Case {
    Shaped {
        /// The pair count written in the first word.
        declared: u32,
        /// The offset words that follow.
        offsets: Vec<u32>,
        /// The tag words that follow.
        tags: Vec<u32>,
        /// Number of payload bytes after the header words.
        payload: u16,
        /// Optional truncation of the whole string.
        truncate: Option<Cut>,
    },
    Raw(Hex),
}

pub fn materialize(case: &Case) -> Vec<u8> {
    match case {
        Case::Raw(h) => h.0.clone(),
        Case::Shaped {
            declared,
            offsets,
            tags,
            payload,
            truncate,
        } => {
            let mut out = vec![];
            out.extend_from_slice(&declared.to_le_bytes());
            for o in offsets {
                out.extend_from_slice(&o.to_le_bytes());
            }
            for t in tags {
                out.extend_from_slice(&t.to_le_bytes());
            }
            out.extend((0..*payload).map(|i| (i as u8).wrapping_mul(37).wrapping_add(1)));
            if let Some(c) = truncate {
                let len = out.len();
                let p = match c {
                    Cut::Frac(f) => ((*f as usize) * (len + 1)) >> 16,
                    Cut::Abs(p) => (*p as usize).min(len),
                    Cut::Near { which, delta } => ((((*which as usize) * (len + 1)) >> 8) + *delta as usize).saturating_sub(2).min(len),
                };
                out.truncate(p);
            }
            out
        }
    }
}

pub fn check_case(case: &Case) -> CaseResult {
    let bytes = materialize(case);
    check_bytes(&bytes)
}

pub fn check_bytes(original: &[u8]) -> CaseResult {
    // The view is built on a copy placed at an address that is 0..15 modulo 16 (a function of the
    // bytes): messages are usually found in the middle of some buffer, not at an allocation's start.
    let misalign = crate::engine::bytespec::Placed::misalign_of(original);
    let mut placed = crate::engine::bytespec::Placed::new(original, misalign);
    let r = check_bytes_in_place(placed.bytes())?;
    // Then a sibling at the very same address and length: one bit of one header word flipped
    // (a verdict must depend on the bytes, not on having seen this buffer before).
    if original.len() >= 8 && misalign % 2 == 0 {
        let h = original.iter().take(48).fold(original.len(), |h, b| h.wrapping_mul(41).wrapping_add(*b as usize));
        let words = original.len() / 4;
        let at = 4 * (h % words) + (h / 7) % 4;
        placed.bytes_mut()[at] ^= 1 << ((h / 31) % 8);
        check_bytes_in_place(placed.bytes()).map_err(|f| Fail::new(f.sig, format!("second message at the same address (byte {at} of the first one changed): {}", f.msg)))?;
    }
    Ok(r.label(["address%4=0", "address%4=1", "address%4=2", "address%4=3"][misalign % 4]))
}

fn check_bytes_in_place(bytes: &[u8]) -> CaseResult {
    let want = tlv_ref::parse(bytes);
    // A borrowed or (for one byte string in four) an owned copy of the bytes.
    let owned = bytes.iter().take(32).fold(bytes.len(), |h, b| h.wrapping_mul(37).wrapping_add(*b as usize)) % 4 == 3;
    let got = panics::catch(|| if owned { MessageView::new(Cow::Owned(bytes.to_vec())) } else { MessageView::new(Cow::Borrowed(bytes)) });
    let view = match got {
        Err(p) => return Err(Fail::new(format!("new:panic:{}", p.signature()), format!("MessageView::new panicked on {}: {}", show(bytes), p.describe()))),
        Ok(r) => r,
    };
    let outcome = |nontrivial: bool, label: &'static str| Ok(Outcome::new(nontrivial).label(label));
    let (view, pairs) = match (view, want) {
        (Err(_), Err(why)) => {
            return outcome(
                why != Invalid::TooShortForCount,
                match why {
                    Invalid::TooShortForCount => "rejected:too-short-for-count",
                    Invalid::TooShortForHeader => "rejected:too-short-for-header",
                    Invalid::OffsetsDecrease => "rejected:offsets-decrease",
                    Invalid::TagsDecrease => "rejected:tags-decrease",
                    Invalid::LastOffsetBeyondPayload => "rejected:last-offset-beyond-payload",
                },
            )
        }
        (Ok(_), Err(why)) => return Err(Fail::new("new:accepts-invalid", format!("MessageView::new accepted {} although the format forbids it ({why:?})", show(bytes)))),
        (Err(e), Ok(p)) => return Err(Fail::new("new:rejects-valid", format!("MessageView::new rejected {} ({e}) although it is a valid message of {} pairs", show(bytes), p.len()))),
        (Ok(v), Ok(p)) => (v, p),
    };
    let n = pairs.len();
    let desc = || format!("message {} (N = {n})", show(bytes));

    let r = panics::catch(|| -> Result<(), Fail> {
        if view.len() != n || view.is_empty() != (n == 0) {
            return Err(Fail::new("len", format!("{}: len() = {}", desc(), view.len())));
        }
        let tags: Vec<u32> = view.tags().iter().map(|t| t.value()).collect();
        if tags != pairs.iter().map(|p| p.0).collect::<Vec<_>>() {
            return Err(Fail::new("tags", format!("{}: tags() = {tags:?}", desc())));
        }
        let iterated: Vec<(u32, Vec<u8>)> = view.iter().map(|(t, v)| (t.value(), v.to_vec())).collect();
        if iterated != pairs {
            return Err(Fail::new("iter", format!("{}: iteration yields {iterated:?}, the format defines {pairs:?}", desc())));
        }
        // However iter() is consumed (an iterator may override these).
        {
            let (lo, hi) = view.iter().size_hint();
            let last = view.iter().last().map(|(t, v)| (t.value(), v.to_vec()));
            let skipped: Vec<(u32, Vec<u8>)> = view.iter().skip(n / 2).map(|(t, v)| (t.value(), v.to_vec())).collect();
            let stepped: Vec<u32> = view.iter().step_by(3).map(|(t, _)| t.value()).collect();
            let want_stepped: Vec<u32> = pairs.iter().step_by(3).map(|p| p.0).collect();
            if view.iter().count() != n || last.as_ref() != pairs.last() || skipped[..] != pairs[n / 2..] || stepped != want_stepped || lo > n || hi.map(|h| h < n).unwrap_or(false) {
                return Err(Fail::new("iter:adaptors", format!("{}: iter() consumed through count / last / skip / step_by / size_hint disagrees with plain iteration", desc())));
            }
        }
        // Values tile the bytes after the header, in order.
        if n >= 1 {
            let mut at = 8 * n;
            for i in 0..n {
                let v = view.get_value(i).ok_or_else(|| Fail::new("get_value:none", format!("{}: get_value({i}) is None", desc())))?;
                let start = (v.as_ptr() as usize).wrapping_sub(view.inner().as_ptr() as usize);
                if start != at && !(v.is_empty()) {
                    return Err(Fail::new("tiling", format!("{}: value {i} starts at byte {start}, expected {at}", desc())));
                }
                if *v != pairs[i].1[..] {
                    return Err(Fail::new("get_value:content", format!("{}: get_value({i}) = {}, expected {}", desc(), show(v), show(&pairs[i].1))));
                }
                at += v.len();
            }
            if at != bytes.len() {
                return Err(Fail::new("tiling", format!("{}: values cover bytes up to {at}, the message has {}", desc(), bytes.len())));
            }
        }
        // All indices for short messages; for long ones the ends, every power-of-two
        // boundary +-1 and a stride (iter().nth(i) is linear).
        let indices: Vec<usize> = if n <= 64 {
            (0..n).collect()
        } else {
            let mut v: Vec<usize> = (0..8).chain(n - 8..n).collect();
            let mut p = 16usize;
            while p < n + 2 {
                v.extend([p.wrapping_sub(2), p - 1, p, p + 1].into_iter().filter(|i| *i < n));
                p *= 2;
            }
            v.extend((0..n).step_by(1 + n / 24));
            v.sort_unstable();
            v.dedup();
            v
        };
        for i in indices {
            let g = view.get(i).map(|(t, v)| (t.value(), v.to_vec()));
            let it = view.iter().nth(i).map(|(t, v)| (t.value(), v.to_vec()));
            let tv = view.get_value(i).map(|v| (view.tags()[i].value(), v.to_vec()));
            if g != it || g != tv || g.as_ref() != Some(&pairs[i]) {
                return Err(Fail::new("accessors-disagree", format!("{}: index {i}: get {g:?}, iter().nth {it:?}, (tags[i], get_value(i)) {tv:?}", desc())));
            }
        }
        for i in [n, n + 1, n + 2, usize::MAX - 1, usize::MAX] {
            if view.get(i).is_some() {
                return Err(Fail::new("get:index>=N", format!("{}: get({i}) returned something", desc())));
            }
            if let Some(v) = view.get_value(i) {
                return Err(Fail::new("get_value:index>=N", format!("{}: get_value({i}) returned {} bytes ({})", desc(), v.len(), show(v))));
            }
            if view.iter().nth(i).is_some() {
                return Err(Fail::new("iter:index>=N", format!("{}: iter().nth({i}) returned something", desc())));
            }
        }
        // Tag lookup.
        let stride = 1 + n / 48;
        let mut probe: Vec<u32> = pairs.iter().step_by(stride).map(|p| p.0).collect();
        probe.extend(pairs.iter().step_by(stride).map(|p| p.0.wrapping_add(1)));
        probe.extend(pairs.iter().step_by(stride).map(|p| p.0.wrapping_sub(1)));
        // ... and the tags around every power-of-two position.
        let mut p2 = 16usize;
        while p2 < n + 2 {
            probe.extend([p2.wrapping_sub(2), p2 - 1, p2, p2 + 1].into_iter().filter(|i| *i < n).map(|i| pairs[i].0));
            p2 *= 2;
        }
        probe.extend([0, 1, u32::MAX]);
        probe.sort_unstable();
        probe.dedup();
        for t in probe {
            let stored: Vec<&Vec<u8>> = pairs.iter().filter(|p| p.0 == t).map(|p| &p.1).collect();
            match view.find(t) {
                None if stored.is_empty() => {}
                Some(v) if stored.iter().any(|s| s[..] == *v) => {}
                other => return Err(Fail::new("find", format!("{}: find({t}) = {:?}, values stored under that tag: {stored:?}", desc(), other.map(show)))),
            }
            match view.find_tag(t) {
                None if stored.is_empty() => {}
                Some(i) if i < n && pairs[i].0 == t => {}
                other => return Err(Fail::new("find_tag", format!("{}: find_tag({t}) = {other:?}", desc()))),
            }
            // The lookups take `impl Into<Tag>`: every way to name the tag must give the same answer.
            let by_u32 = (view.find(t).map(|v| v.as_ptr()), view.find_tag(t));
            let others = [
                (view.find(&t).map(|v| v.as_ptr()), view.find_tag(&t)),
                (view.find(Tag::new_from_u32(t)).map(|v| v.as_ptr()), view.find_tag(Tag::new_from_u32(t))),
                (view.find(t.to_le_bytes()).map(|v| v.as_ptr()), view.find_tag(t.to_le_bytes())),
                (view.find(&t.to_le_bytes()).map(|v| v.as_ptr()), view.find_tag(&t.to_le_bytes())),
            ];
            if others.iter().any(|o| *o != by_u32) {
                return Err(Fail::new("find:argument-kind", format!("{}: find / find_tag of tag {t} depend on how the tag is written (u32, &u32, Tag, [u8; 4], &[u8; 4])", desc())));
            }
        }
        // tags_match_exactly.
        let exact: Vec<Tag> = pairs.iter().map(|p| Tag::new_from_u32(p.0)).collect();
        if !view.tags_match_exactly(exact.iter().copied()) {
            return Err(Fail::new("tags_match_exactly", format!("{}: tags_match_exactly(its own tags) is false", desc())));
        }
        // The argument is any IntoIterator: the same tags through iterators whose size hints say
        // less (filter: upper bound only, here larger than what comes out; from_fn: nothing; chain of
        // two halves; a Vec by value), which must not change the answer.
        if n <= 64 {
            let marker = Tag::new_from_u32(0xDEAD_BEEF);
            let padded: Vec<Tag> = exact.iter().flat_map(|t| [marker, *t]).collect();
            let filtered = padded.iter().copied().enumerate().filter(|(i, _)| i % 2 == 1).map(|(_, t)| t);
            let mut k = 0usize;
            let generated = std::iter::from_fn(|| {
                k += 1;
                exact.get(k - 1).copied()
            });
            let chained = exact[..n / 2].iter().copied().chain(exact[n / 2..].iter().copied());
            let answers = [view.tags_match_exactly(filtered), view.tags_match_exactly(generated), view.tags_match_exactly(chained), view.tags_match_exactly(exact.clone())];
            if answers != [true; 4] {
                return Err(Fail::new(
                    "tags_match_exactly:iterator-kind",
                    format!("{}: tags_match_exactly(its own tags) through a filter / from_fn / chain / Vec gives {answers:?}", desc()),
                ));
            }
            // ... and a filter that really yields one tag less must still be refused.
            if n > 0 && view.tags_match_exactly(padded.iter().copied().enumerate().filter(|(i, _)| i % 2 == 1 && *i != 1).map(|(_, t)| t)) {
                return Err(Fail::new("tags_match_exactly:iterator-kind", format!("{}: tags_match_exactly(all but the first tag, through a filter) is true", desc())));
            }
        }
        let mut longer = exact.clone();
        longer.push(Tag::new_from_u32(7));
        if view.tags_match_exactly(longer) {
            return Err(Fail::new("tags_match_exactly", format!("{}: tags_match_exactly(tags + one more) is true", desc())));
        }
        if n > 0 {
            let mut other = exact.clone();
            other[n - 1] = Tag::new_from_u32(other[n - 1].value() ^ 1);
            if view.tags_match_exactly(other) {
                return Err(Fail::new("tags_match_exactly", format!("{}: tags_match_exactly(perturbed tags) is true", desc())));
            }
            if view.tags_match_exactly(exact[..n - 1].iter().copied()) {
                return Err(Fail::new("tags_match_exactly", format!("{}: tags_match_exactly(tags minus the last) is true", desc())));
            }
        }
        Ok(())
    });
    match r {
        Err(p) => return Err(Fail::new(format!("accessor:panic:{}", p.signature()), format!("{}: an accessor panicked: {}", desc(), p.describe()))),
        Ok(Err(f)) => return Err(f),
        Ok(Ok(())) => {}
    }
    let equal_tags = pairs.windows(2).any(|w| w[0].0 == w[1].0);
    let equal_offsets = pairs.iter().take(n.saturating_sub(1)).any(|p| p.1.is_empty());
    Ok(Outcome::new(n <= 1 || equal_tags || equal_offsets)
        .label("accepted")
        .label_if(n == 0, "accepted:N=0")
        .label_if(n == 1, "accepted:N=1")
        .label_if(n >= 2, "accepted:N>=2")
        .label_if(equal_tags, "equal_adjacent_tags")
        .label_if(equal_offsets, "equal_adjacent_offsets")
        .label_if(n == 0 && bytes.len() > 4, "N=0_with_trailing_bytes"))
}

fn shaped() -> impl Strategy<Value = Case> {
    // Start from a consistent message of n values, then perturb.
    prop_oneof![12 => 0usize..13, 1 => 13usize..200, 1 => prop_oneof![250usize..270, 500usize..530, 1000usize..1100, 200usize..1100]]
        .prop_flat_map(|n| {
            (
                Just(n),
                proptest::collection::vec(prop_oneof![3 => Just(0u16), 4 => 1u16..6, 1 => 1u16..40], n.max(1)),
                proptest::collection::vec(prop_oneof![5 => 0u32..5, 2 => 0u32..64, 1 => any::<u32>()], n.max(1)),
                0u8..16,
                any::<u32>(),
                proptest::option::weighted(0.25, crate::engine::bytespec::cut()),
            )
        })
        .prop_map(|(n, lens, mut tags, perturb, r, truncate)| {
            tags.truncate(n);
            tags.sort_unstable();
            let lens = &lens[..n];
            let mut offsets: Vec<u32> = vec![];
            let mut acc = 0u32;
            for l in lens.iter().take(n.saturating_sub(1)) {
                acc += *l as u32;
                offsets.push(acc);
            }
            let mut payload: u32 = lens.iter().map(|l| *l as u32).sum();
            let mut declared = n as u32;
            // Positions: uniform, or (half of the time, for long arrays) just before / at a power of two.
            let pick = |len: usize| {
                if len == 0 {
                    0
                } else if len > 40 && r & 1 == 1 {
                    let k = 5 + ((r >> 1) as usize % 6); // 32 .. 1024
                    let boundary = (1usize << k).saturating_sub(1 + ((r >> 8) as usize % 2));
                    boundary.min(len - 1)
                } else {
                    (r as usize) % len
                }
            };
            match perturb {
                0..=5 => {}
                6 => {
                    // one offset inversion
                    if offsets.len() >= 2 {
                        let i = pick(offsets.len() - 1);
                        offsets.swap(i, i + 1);
                    }
                }
                7 => {
                    // one tag inversion
                    if tags.len() >= 2 {
                        let i = pick(tags.len() - 1);
                        tags.swap(i, i + 1);
                    }
                }
                8 => {
                    // last offset beyond / at / just inside the payload
                    if let Some(last) = offsets.last_mut() {
                        *last = payload + (r % 3);
                    }
                }
                9 => payload = payload.saturating_sub(1 + r % 3),
                10 => payload += 1 + r % 5,
                11 => declared = declared.wrapping_add(1 + r % 2),
                12 => declared = declared.saturating_sub(1),
                13 => declared = [u32::MAX, 1 << 31, 1 << 29, (1 << 29) + 1, 1 << 28, 0x2000_0001][(r % 6) as usize],
                14 => {
                    // an offset near u32::MAX
                    if let Some(last) = offsets.last_mut() {
                        *last = u32::MAX - (r % 2);
                    }
                }
                _ => {
                    // equal tags everywhere
                    for t in tags.iter_mut() {
                        *t = 3;
                    }
                }
            }
            Case::Shaped {
                declared,
                offsets,
                tags,
                payload: payload.min(u16::MAX as u32) as u16,
                truncate,
            }
        })
}

fn raw() -> impl Strategy<Value = Case> {
    prop_oneof![
        proptest::collection::vec(any::<u8>(), 0..12),
        proptest::collection::vec(prop_oneof![4 => 0u8..4, 1 => any::<u8>()], 0..40),
    ]
    .prop_map(|v| Case::Raw(Hex(v)))
}

/// Every truncation of a few valid messages.
fn truncations() -> Vec<Case> {
    let messages: Vec<Vec<(u32, Vec<u8>)>> = vec![
        vec![],
        vec![(1, b"a".to_vec())],
        vec![(1, b"asd".to_vec()), (2, b"zxcv".to_vec())],
        vec![(1, vec![]), (1, b"x".to_vec()), (9, vec![])],
        vec![(0, b"ab".to_vec()), (0, b"cd".to_vec()), (5, b"e".to_vec()), (u32::MAX, b"fgh".to_vec())],
    ];
    let mut out = vec![];
    for m in messages {
        let bytes = tlv_ref::layout(&m);
        for k in 0..=bytes.len() {
            out.push(Case::Raw(Hex(bytes[..k].to_vec())));
        }
        // And with trailing bytes.
        let mut longer = bytes.clone();
        longer.extend_from_slice(b"xyz");
        out.push(Case::Raw(Hex(longer)));
    }
    out
}

/// All strings of 0..=2 words over a small word alphabet followed by 0..=2 payload bytes.
fn small_words(max_words: usize) -> Vec<Case> {
    let alphabet = [0u32, 1, 2, 3, u32::MAX];
    let mut all: Vec<Vec<u32>> = vec![vec![]];
    let mut frontier: Vec<Vec<u32>> = vec![vec![]];
    for _ in 0..max_words {
        let mut next = vec![];
        for s in &frontier {
            for a in alphabet {
                let mut t = s.clone();
                t.push(a);
                next.push(t);
            }
        }
        all.extend(next.iter().cloned());
        frontier = next;
    }
    let mut out = vec![];
    for words in all {
        for extra in 0..4usize {
            let mut bytes: Vec<u8> = words.iter().flat_map(|w| w.to_le_bytes()).collect();
            bytes.extend((0..extra).map(|i| b'a' + i as u8));
            out.push(Case::Raw(Hex(bytes)));
        }
    }
    out
}

pub fn run(ctx: &Ctx, rep: &mut Report) {
    engine::enumerate(ctx, rep, "truncate-every-length", truncations().into_iter(), check_case);
    let words = ctx.tier.pick(6, 8);
    engine::enumerate(ctx, rep, "small-word-strings", small_words(words).into_iter(), check_case);
    rep.sub_set("small-word-strings", "max_words", json!(words));
    rep.sub_set("small-word-strings", "word_alphabet", json!("0 1 2 3 u32::MAX, followed by 0..3 payload bytes"));
    rep.sub_set("small-word-strings", "exhaustive", json!(true));
    let cases = ctx.share(ctx.tier.pick(800_000, 16_000_000));
    engine::drive(ctx, rep, "shaped", shaped(), cases, check_case);
    let cases = ctx.share(ctx.tier.pick(240_000, 8_000_000));
    engine::drive(ctx, rep, "raw", raw(), cases, check_case);
}

fn replay(_ctx: &Ctx, _group: &str, case: &Value) -> CaseResult {
    check_case(&parse_case::<Case>(case)?)
}

pub fn def() -> PropDef {
    PropDef {
        id: "C12",
        rule: "shaped: start from a consistent header for N in 0..12 values (N up to 1100 in two cases out of 14, with the perturbed position then biased to power-of-two boundaries) (lengths 0 common, tags from a small pool so that equal tags occur) and apply one perturbation: swap two offsets, swap two tags, put the last offset at / just beyond the payload, shorten or lengthen the payload, declare N+1/N+2/N-1 or a huge N (2^28..2^32-1), an offset near u32::MAX, all tags equal; optionally truncate at any length. raw: short arbitrary byte strings. truncate-every-length: every prefix of five valid messages. small-word-strings: every string of up to 6 (8) little-endian words over {0,1,2,3,u32::MAX} followed by 0..3 bytes. Every byte string is handed to the library at an address that is 0..15 modulo 16 (a function of the bytes), not at an allocation's start, borrowed or (one in four) owned; for half of them a sibling with one header bit flipped is then checked at the very same address. Oracle: new never panics and accepts iff an independent validator does; on accepted views no accessor panics for indices 0..N+2 and usize::MAX-1, usize::MAX; values for 0..N tile the bytes after the 8N-byte header (checked by address); get(i), iter().nth(i), (tags()[i], get_value(i)) agree and equal the reference parse; every index >= N gives None from get, get_value and iter; find / find_tag agree with the stored tags; tags_match_exactly is true for the tags (given as a slice iterator, a Vec, a filter over a longer table, a from_fn generator, a chain) and false for a longer, shorter or perturbed list. Non-trivial: accepted with N in {0,1} or with equal adjacent tags or offsets, or rejected by a check other than the 4-byte minimum. Distinct: hash of the serialised case / by enumeration.",
        assumptions: &["refimpl/tlv_ref.rs is the reference validator (written from the crate documentation, checked against its example)"],
        exhaustive_note: Some("truncate-every-length and small-word-strings: complete enumerations"),
        shards: |t: Tier| t.pick(8, 16),
        run,
        replay,
    }
}
