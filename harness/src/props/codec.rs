//! Shared machinery for the HCOBS Encoder / Decoder properties (C01, C02,
//! C07, C09): case type, generators, scripted readers and the interpreters
//! that feed a codec piece by piece while draining its consumer.
use std::io::Read;
use std::num::NonZeroUsize;

use hcobs::{Decoder, Encoder};
use owning_iovec::{ConsumingIovec, OwningIovec};
use proptest::prelude::*;
use serde::{Deserialize, Serialize};

use crate::engine::bytespec::{self, show, ByteSpec, Cut, Hex, Seg};
use crate::engine::Fail;

/// One step of a scripted reader.
#[derive(Clone, Copy, Debug, PartialEq, Eq, Hash, Serialize, Deserialize)]
pub enum ReadStep {
    /// Deliver `1 + (k * (asked - 1)) / 255` bytes (at least one, at most what is asked and left).
    Deliver(u8),
    /// Fail with `ErrorKind::Interrupted`.
    Interrupt,
    /// Fail with a non-retryable error (`ErrorKind::ConnectionReset`): the call that gets it
    /// fails if nothing was delivered yet, and returns what it has otherwise.
    Error,
    /// `Ok(0)` although bytes are left (a file being appended to: `Read` documents that end of
    /// file need not be permanent).  Only the stream readers of the transient-eof groups use it.
    Eof,
}

/// A reader over a byte slice that follows a script of short reads and
/// interrupted calls; once the script is exhausted it delivers everything asked.
pub struct ScriptReader<'a> {
    pub data: &'a [u8],
    pub pos: usize,
    pub script: &'a [ReadStep],
    pub step: usize,
    pub calls: usize,
    pub interrupts: usize,
    pub short_reads: usize,
    pub hard_errors: usize,
}

impl<'a> ScriptReader<'a> {
    pub fn new(data: &'a [u8], script: &'a [ReadStep]) -> Self {
        ScriptReader {
            data,
            pos: 0,
            script,
            step: 0,
            calls: 0,
            interrupts: 0,
            short_reads: 0,
            hard_errors: 0,
        }
    }
}

impl Read for ScriptReader<'_> {
    fn read(&mut self, buf: &mut [u8]) -> std::io::Result<usize> {
        self.calls += 1;
        let left = self.data.len() - self.pos;
        let asked = buf.len().min(left);
        let step = self.script.get(self.step).copied();
        self.step += 1;
        let n = match step {
            Some(ReadStep::Interrupt) => {
                self.interrupts += 1;
                return Err(std::io::Error::new(std::io::ErrorKind::Interrupted, "scripted EINTR"));
            }
            Some(ReadStep::Error) => {
                self.hard_errors += 1;
                return Err(std::io::Error::new(std::io::ErrorKind::ConnectionReset, "scripted hard error"));
            }
            Some(ReadStep::Deliver(k)) if asked > 0 => 1 + (k as usize * (asked - 1)) / 255,
            _ => asked,
        };
        if n < asked {
            self.short_reads += 1;
        }
        buf[..n].copy_from_slice(&self.data[self.pos..self.pos + n]);
        self.pos += n;
        Ok(n)
    }
}

#[derive(Clone, Debug, PartialEq, Eq, Hash, Serialize, Deserialize)]
pub enum Method {
    /// `encode` / `decode`: may borrow the caller's slice.
    Borrow,
    /// `encode_copy` / `decode_copy`.
    Copy,
    /// `read_n` into the codec's arena, then `encode_anchored` / `decode_anchored`.
    Anchored,
    /// `read_n` into a separate arena of the caller's, which is dropped before (odd pieces) or
    /// right after (even pieces) the `*_anchored` call: the slice's own anchor is all that keeps it alive.
    AnchoredForeign,
    /// `encode_read` / `decode_read` with a scripted reader; what the call
    /// does not consume is left for the following pieces.
    Read { script: Vec<ReadStep>, attempts: u8 },
}

#[derive(Clone, Copy, Debug, PartialEq, Eq, Hash, Serialize, Deserialize)]
pub enum Drain {
    Nothing,
    /// `consume(k)` slices.
    Consume(u8),
    /// `advance_slices` by `k/255` of the consumable bytes.
    AdvanceFrac(u8),
    /// `advance_slices(n)`, possibly more than is consumable.
    AdvanceAbs(u16),
    /// `Read::read` into a buffer of this many bytes.
    Read(u16),
    /// `consume` every consumable slice.
    All,
}

/// How one side (encoder or decoder) is fed and drained.
#[derive(Clone, Debug, Default, PartialEq, Eq, Hash, Serialize, Deserialize)]
pub struct Side {
    pub cuts: Vec<Cut>,
    /// Method of piece `i` is `methods[i % len]` (Borrow when empty).
    pub methods: Vec<Method>,
    /// Drain action after piece `i` is `drains[i % len]` (Nothing when empty).
    pub drains: Vec<Drain>,
    /// Arena action before piece `i` is `nudges[i % len]` (none when empty): the
    /// codec's arena is reachable through `consumer().arena()`, and flushing or
    /// filling it forces chunk turnovers at chosen points.
    #[serde(default)]
    pub nudges: Vec<Nudge>,
}

#[derive(Clone, Copy, Debug, PartialEq, Eq, Hash, Serialize, Deserialize)]
pub enum Nudge {
    Nothing,
    /// `flush_cache()`
    Flush,
    /// `ensure_capacity(n)`
    Ensure(u32),
    /// Use up the current chunk until this many bytes are left.
    LeaveRemaining(u16),
    /// Replace the arena by a fresh one and drop the old one (what `take_arena` + drop does):
    /// everything already produced must stay alive through its anchors alone.
    Replace,
}

/// Uses up the arena's current chunk until `leave` bytes remain.
pub fn leave_remaining(arena: &mut owning_iovec::ByteArena, leave: usize) {
    if arena.remaining() <= leave {
        arena.ensure_capacity(leave + 1);
    }
    let take = arena.remaining().saturating_sub(leave);
    if take > 0 {
        let src = vec![0u8; take];
        let mut rd = &src[..];
        // The slice is dropped at once; the chunk stays the arena's current one.
        let _ = arena.read_n(&mut rd, take, NonZeroUsize::new(1).unwrap());
    }
}

pub fn apply_nudge(arena: &mut owning_iovec::ByteArena, nudge: Nudge) {
    match nudge {
        Nudge::Nothing => {}
        Nudge::Flush => arena.flush_cache(),
        Nudge::Ensure(n) => arena.ensure_capacity((n as usize).min(2 << 20)),
        Nudge::LeaveRemaining(r) => leave_remaining(arena, r as usize),
        Nudge::Replace => {
            let old = std::mem::take(arena);
            drop(old);
        }
    }
}

pub fn nudge() -> impl Strategy<Value = Nudge> {
    prop_oneof![
        6 => Just(Nudge::Nothing),
        2 => Just(Nudge::Flush),
        1 => prop_oneof![1u32..300, 4000u32..9000, 60_000u32..70_000].prop_map(Nudge::Ensure),
        3 => prop_oneof![0u16..4, 60u16..70, 250u16..260, 0u16..300].prop_map(Nudge::LeaveRemaining),
        1 => Just(Nudge::Replace),
    ]
}

#[derive(Clone, Debug, PartialEq, Eq, Hash, Serialize, Deserialize)]
pub struct CodecCase {
    pub payload: ByteSpec,
    /// Bytes already in the iovec handed to `Encoder::new_from_iovec` (usually none).
    pub pre: Hex,
    pub enc: Side,
    pub dec: Side,
}

pub fn read_step() -> impl Strategy<Value = ReadStep> {
    prop_oneof![6 => any::<u8>().prop_map(ReadStep::Deliver), 2 => Just(ReadStep::Interrupt), 1 => Just(ReadStep::Error)]
}

pub fn method() -> impl Strategy<Value = Method> {
    prop_oneof![
        3 => Just(Method::Borrow),
        3 => Just(Method::Copy),
        2 => Just(Method::Anchored),
        1 => Just(Method::AnchoredForeign),
        2 => (proptest::collection::vec(read_step(), 0..6), 1u8..6).prop_map(|(script, attempts)| Method::Read { script, attempts }),
    ]
}

pub fn drain() -> impl Strategy<Value = Drain> {
    prop_oneof![
        3 => Just(Drain::Nothing),
        2 => (0u8..4).prop_map(Drain::Consume),
        2 => any::<u8>().prop_map(Drain::AdvanceFrac),
        1 => prop_oneof![0u16..8, 0u16..2000, any::<u16>()].prop_map(Drain::AdvanceAbs),
        1 => prop_oneof![0u16..8, 0u16..2000].prop_map(Drain::Read),
        2 => Just(Drain::All),
    ]
}

pub fn side(max_cuts: usize) -> impl Strategy<Value = Side> {
    (
        bytespec::cuts(max_cuts),
        proptest::collection::vec(method(), 0..5),
        proptest::collection::vec(drain(), 0..5),
        prop_oneof![2 => Just(vec![]), 1 => proptest::collection::vec(nudge(), 1..5)],
    )
        .prop_map(|(cuts, methods, drains, nudges)| Side { cuts, methods, drains, nudges })
}

pub fn codec_case(allow_large: bool) -> impl Strategy<Value = CodecCase> {
    (
        bytespec::hcobs_payload(allow_large),
        prop_oneof![9 => Just(vec![]), 1 => proptest::collection::vec(any::<u8>(), 1..6)],
        side(11),
        side(11),
    )
        .prop_map(|(payload, pre, enc, dec)| CodecCase {
            payload,
            pre: Hex(pre),
            enc,
            dec,
        })
}

/// Payloads whose stuff sequences (or lone FE / FD bytes) sit at power-of-two
/// distances from where a scan can start: the beginning of the input, the end of
/// the 252-byte first chunk, or just after the previous stuff sequence.  Half of
/// the cases feed everything in one call, so that the distance is also the
/// offset inside one call's slice.
pub fn aligned_case() -> impl Strategy<Value = CodecCase> {
    let gap = (6u32..=16, 1u32..=4, -2i32..=1).prop_map(|(p, k, d)| ((k << p) as i64 - 1 + d as i64).clamp(0, 140_000) as u32);
    let marker = prop_oneof![
        5 => Just(vec![0xFEu8, 0xFD]),
        1 => Just(vec![0xFEu8]),
        1 => Just(vec![0xFEu8, 0xFE, 0xFD]),
        1 => Just(vec![0xFEu8, 0xFD, 0xFE, 0xFD]),
    ];
    let prefix = prop_oneof![
        3 => Just(vec![]),
        3 => Just(vec![Seg::Fill { byte: 0x44, len: 252 }]),
        3 => Just(vec![Seg::Lit(Hex(vec![0xFE, 0xFD]))]),
        1 => Just(vec![Seg::Fill { byte: 0x44, len: 252 + 64008 }]),
        2 => (0u32..300).prop_map(|len| vec![Seg::Fill { byte: 0x44, len }, Seg::Lit(Hex(vec![0xFE, 0xFD]))]),
    ];
    let filler = prop_oneof![3 => Just(0u8), 1 => Just(1u8), 1 => Just(2u8)];
    (codec_case(false), prefix, proptest::collection::vec((gap, marker, filler, any::<u32>()), 1..4), 0u8..4).prop_map(|(mut case, prefix, runs, feeding)| {
        let mut segs = prefix;
        for (gap, marker, filler, seed) in runs {
            segs.push(match filler {
                0 => Seg::Fill { byte: 0x45, len: gap },
                1 => Seg::Fill { byte: 0xFD, len: gap },
                // Uniform noise may contain FE FD itself: then the alignment is relative to that one.
                _ => Seg::Noise { seed, len: gap, alphabet: 0 },
            });
            segs.push(Seg::Lit(Hex(marker)));
        }
        segs.extend(case.payload.0.drain(..).take(2));
        case.payload = ByteSpec(segs);
        if feeding < 2 {
            case.enc.cuts.clear();
            case.dec.cuts.clear();
        }
        case
    })
}

/// Positions worth cutting near for a plain input: stuff sequences and the chunk limits.
pub fn plain_interesting(bytes: &[u8]) -> Vec<usize> {
    let mut v = bytespec::stuff_positions(bytes);
    for p in [252usize, 252 + 64008, 252 + 2 * 64008] {
        if p <= bytes.len() {
            v.push(p);
        }
    }
    v.sort_unstable();
    v
}

/// Positions worth cutting near for an encoded stream: every chunk header.
pub fn encoded_interesting(enc: &[u8]) -> Vec<usize> {
    let mut v = vec![];
    if enc.is_empty() {
        return v;
    }
    let mut pos = 1 + enc[0] as usize;
    v.push(0);
    while pos + 1 < enc.len() && v.len() < 64 {
        v.push(pos);
        let size = enc[pos] as usize + 253 * enc[pos + 1] as usize;
        pos += 2 + size;
    }
    v
}

/// What an interpreter run observed (used for classification).
#[derive(Clone, Debug, Default)]
pub struct Obs {
    /// Zero-length calls made between pieces.
    pub empty_calls: usize,
    pub pieces: usize,
    pub methods_used: std::collections::BTreeSet<&'static str>,
    pub drains_done: usize,
    pub mid_slice_drain: bool,
    pub max_lag: usize,
    pub interrupts: usize,
    pub short_reads: usize,
    pub failed_reads: usize,
}

/// Bytes observed through a consumer, in stream order; checks that the
/// visible region is always consistent with what was seen before.
#[derive(Default)]
pub struct Seen {
    pub bytes: Vec<u8>,
    pub drained: usize,
}

impl Seen {
    /// Records the currently visible bytes (which start at offset `drained`).
    fn observe(&mut self, visible: &[&[u8]], what: &str) -> Result<usize, Fail> {
        let mut off = self.drained;
        for slice in visible {
            if slice.is_empty() {
                return Err(Fail::new(format!("{what}:empty-slice"), format!("{what}: an exposed slice is empty")));
            }
            let overlap = self.bytes.len().saturating_sub(off).min(slice.len());
            if slice[..overlap] != self.bytes[off..off + overlap] {
                return Err(Fail::new(
                    format!("{what}:observed-byte-changed"),
                    format!("{what}: bytes at offset {off} changed after having been observable"),
                ));
            }
            self.bytes.extend_from_slice(&slice[overlap..]);
            off += slice.len();
        }
        Ok(off - self.drained)
    }

    /// Accounts for `bytes` having been handed to the consumer.
    fn drain(&mut self, bytes: &[u8], what: &str) -> Result<(), Fail> {
        let end = self.drained + bytes.len();
        if end > self.bytes.len() || self.bytes[self.drained..end] != *bytes {
            return Err(Fail::new(
                format!("{what}:drained-not-prefix"),
                format!("{what}: drained bytes at offset {} differ from what was observable", self.drained),
            ));
        }
        self.drained = end;
        Ok(())
    }
}

fn visible<'a>(consumer: &'a ConsumingIovec<'_>) -> Vec<&'a [u8]> {
    consumer.stable_prefix().iter().map(|s| -> &[u8] { s }).collect()
}

/// The other ways to look at what is consumable must show the same slices as `stable_prefix`:
/// iterating over the iovec, and `front`.
fn views_agree(consumer: &ConsumingIovec<'_>, what: &str) -> Result<(), Fail> {
    let prefix: Vec<(usize, usize)> = consumer.stable_prefix().iter().map(|s| (s.as_ptr() as usize, s.len())).collect();
    let iovec: &OwningIovec<'_> = consumer;
    let iterated: Vec<(usize, usize)> = iovec.into_iter().map(|s| (s.as_ptr() as usize, s.len())).collect();
    let front = consumer.front().map(|s| (s.as_ptr() as usize, s.len()));
    if iterated != prefix || front != prefix.first().copied() {
        return Err(Fail::new(
            format!("{what}:views-disagree"),
            format!("{what}: iterating over the iovec shows {} slices and front() is {:?}; stable_prefix() has {} slices", iterated.len(), front.map(|f| f.1), prefix.len()),
        ));
    }
    Ok(())
}

/// Runs one drain action; returns whether it stopped in the middle of a slice.
fn do_drain(mut consumer: ConsumingIovec<'_>, seen: &mut Seen, action: Drain, what: &str) -> Result<bool, Fail> {
    let slices: Vec<Vec<u8>> = consumer.stable_prefix().iter().map(|s| s.to_vec()).collect();
    let avail: usize = slices.iter().map(Vec::len).sum();
    let flat: Vec<u8> = slices.concat();
    let before = consumer.total_size();
    let (taken, mid) = match action {
        Drain::Nothing => return Ok(false),
        Drain::Consume(k) => {
            let want = (k as usize).min(slices.len());
            let got = consumer.consume(k as usize);
            if got != want {
                return Err(Fail::new(format!("{what}:consume-count"), format!("{what}: consume({k}) returned {got} with {} consumable slices", slices.len())));
            }
            (slices[..want].iter().map(Vec::len).sum::<usize>(), false)
        }
        Drain::All => {
            let got = consumer.consume(slices.len());
            if got != slices.len() {
                return Err(Fail::new(format!("{what}:consume-count"), format!("{what}: consume({}) returned {got}", slices.len())));
            }
            (avail, false)
        }
        Drain::AdvanceFrac(_) | Drain::AdvanceAbs(_) => {
            let n = match action {
                Drain::AdvanceFrac(k) => (avail * k as usize) / 255,
                Drain::AdvanceAbs(n) => n as usize,
                _ => unreachable!(),
            };
            let got = consumer.advance_slices(n);
            let want = n.min(avail);
            if got != want {
                return Err(Fail::new(format!("{what}:advance-count"), format!("{what}: advance_slices({n}) returned {got} with {avail} consumable bytes")));
            }
            (want, is_mid(&slices, want))
        }
        Drain::Read(n) => {
            let mut buf = vec![0u8; n as usize];
            let got = consumer.read(&mut buf).map_err(|e| Fail::new(format!("{what}:read-error"), format!("{what}: Read::read failed: {e}")))?;
            let want = (n as usize).min(avail);
            if got != want || buf[..got] != flat[..got] {
                return Err(Fail::new(format!("{what}:read-content"), format!("{what}: Read::read({n}) returned {got} bytes, expected the first {want} consumable bytes")));
            }
            (want, is_mid(&slices, want))
        }
    };
    let after = consumer.total_size();
    if before - after != taken {
        return Err(Fail::new(format!("{what}:size-accounting"), format!("{what}: total_size went from {before} to {after} after removing {taken} bytes")));
    }
    seen.drain(&flat[..taken], what)?;
    Ok(mid)
}

fn is_mid(slices: &[Vec<u8>], taken: usize) -> bool {
    let mut acc = 0;
    for s in slices {
        if taken == acc {
            return false;
        }
        if taken < acc + s.len() {
            return true;
        }
        acc += s.len();
    }
    false
}

pub const ENCODER_LAG_BOUND: usize = (1 << 20) + 64008 + 2;

pub struct EncRun {
    /// Everything the encoder produced: drained early ++ returned by `finish`.
    pub output: Vec<u8>,
    pub drained_early: usize,
    pub obs: Obs,
}

fn method_name(m: &Method) -> &'static str {
    match m {
        Method::Borrow => "borrow",
        Method::Copy => "copy",
        Method::Anchored => "anchored",
        Method::AnchoredForeign => "anchored",
        Method::Read { .. } => "read",
    }
}

/// Feeds `plain` to an Encoder as `side` describes, draining as it goes.
/// `check_stream` enables the prefix / lag observations (C09).
pub fn run_encoder(plain: &[u8], pre: &[u8], side: &Side, check_stream: bool) -> Result<EncRun, Fail> {
    // The caller's bytes sit at an address that is 0..15 modulo 16 (a function of the bytes):
    // borrowed pieces then start anywhere, as they do in the middle of a caller's buffer.
    let placed = bytespec::Placed::new(plain, bytespec::Placed::misalign_of(plain));
    let plain = placed.bytes();
    // For one input in three, another encoder is first fed part of the same input on this
    // thread and abandoned without `finish` (mid-chunk, possibly holding back an FE):
    // nothing of it may leak into the encoder under test.
    if plain.len() % 3 == 0 && !plain.is_empty() && plain.len() <= 8192 {
        let upto = match bytespec::stuff_positions(plain).first() {
            Some(p) => p + 1, // ends on the FE of the first FE FD
            None => (plain.len() + 1) / 2,
        };
        let mut abandoned = Encoder::new();
        abandoned.encode_copy(&plain[..upto]);
        drop(abandoned);
    }
    let cuts = bytespec::resolve_cuts(&side.cuts, plain.len(), &plain_interesting(plain));
    let pieces = bytespec::split_at_cuts(plain, &cuts);
    let mut obs = Obs::default();
    let mut seen = Seen::default();

    let mut encoder: Encoder<'_> = if pre.is_empty() {
        if plain.len() % 2 == 1 {
            Encoder::default()
        } else {
            Encoder::new()
        }
    } else {
        let mut iovec = OwningIovec::new();
        iovec.push_copy(pre);
        Encoder::new_from_iovec(iovec)
    };

    // `pos` is the number of plain bytes consumed so far; a piece that ends
    // before `pos` (because an earlier read call took more) is skipped.
    let mut pos = 0usize;
    let mut piece_end = 0usize;
    let n_pieces = pieces.len();
    for (i, piece) in pieces.iter().enumerate() {
        piece_end += piece.len();
        let is_last = i + 1 == n_pieces;
        // Between pieces, sometimes a call with nothing in it (a zero-length piece is a piece):
        // it must change nothing, in particular not forget a held-back FE.
        if i > 0 && (i + side.cuts.len() + side.drains.len()) % 3 == 1 {
            obs.empty_calls += 1;
            match (i + side.methods.len()) % 4 {
                0 => encoder.encode(&plain[pos..pos]),
                1 => encoder.encode_copy(&[]),
                2 => {
                    let mut src: &[u8] = &[];
                    let anchored = encoder
                        .read_n(&mut src, 0, NonZeroUsize::new(1).unwrap())
                        .map_err(|e| Fail::new("encode:read_n-error", format!("read_n of zero bytes failed: {e}")))?;
                    encoder.encode_anchored(anchored);
                }
                _ => {
                    let mut src: &[u8] = &plain[pos..];
                    let n = encoder
                        .encode_read(&mut src, 0, NonZeroUsize::new(2).unwrap())
                        .map_err(|e| Fail::new("encode:read-error", format!("encode_read of zero bytes failed: {e}")))?;
                    if n != 0 || src.len() != plain.len() - pos {
                        return Err(Fail::new("encode:read-count", format!("encode_read of zero bytes returned {n} and consumed {} bytes of the reader", plain.len() - pos - src.len())));
                    }
                }
            }
        }
        while pos < piece_end || (piece.is_empty() && pos == piece_end) {
            let chunk = &plain[pos..piece_end];
            let m = if side.methods.is_empty() { &Method::Borrow } else { &side.methods[i % side.methods.len()] };
            obs.methods_used.insert(method_name(m));
            obs.pieces += 1;
            if !side.nudges.is_empty() {
                apply_nudge(encoder.consumer().arena(), side.nudges[i % side.nudges.len()]);
            }
            match m {
                Method::Borrow => {
                    encoder.encode(chunk);
                    pos = piece_end;
                }
                Method::Copy => {
                    encoder.encode_copy(chunk);
                    pos = piece_end;
                }
                Method::Anchored => {
                    let mut src = chunk;
                    let anchored = encoder
                        .read_n(&mut src, chunk.len(), NonZeroUsize::new(3).unwrap())
                        .map_err(|e| Fail::new("encode:read_n-error", format!("read_n from a slice failed: {e}")))?;
                    if anchored.slice() != chunk {
                        return Err(Fail::new("encode:read_n-content", "read_n from a slice did not return the slice's bytes"));
                    }
                    encoder.encode_anchored(anchored);
                    pos = piece_end;
                }
                Method::AnchoredForeign => {
                    let mut foreign = owning_iovec::ByteArena::new();
                    let mut src = chunk;
                    let anchored = foreign
                        .read_n(&mut src, chunk.len(), NonZeroUsize::new(3).unwrap())
                        .map_err(|e| Fail::new("encode:read_n-error", format!("read_n from a slice failed: {e}")))?;
                    if i % 2 == 1 {
                        drop(foreign);
                        encoder.encode_anchored(anchored);
                    } else {
                        encoder.encode_anchored(anchored);
                        drop(foreign);
                    }
                    pos = piece_end;
                }
                Method::Read { script, attempts } => {
                    let mut reader = ScriptReader::new(&plain[pos..], script);
                    let r = encoder.encode_read(&mut reader, chunk.len(), NonZeroUsize::new(*attempts as usize).unwrap());
                    obs.interrupts += reader.interrupts;
                    obs.short_reads += reader.short_reads;
                    match r {
                        Ok(n) => {
                            if n != reader.pos {
                                return Err(Fail::new("encode:read-count", format!("encode_read returned {n} but the reader delivered {}", reader.pos)));
                            }
                            pos += n;
                            if chunk.is_empty() || n == 0 {
                                // Nothing asked or nothing delivered (only when the source is exhausted).
                                if !chunk.is_empty() {
                                    return Err(Fail::new("encode:read-eof", "encode_read reported end of file although bytes were left"));
                                }
                            }
                        }
                        Err(e) if reader.pos == 0 && (e.kind() == std::io::ErrorKind::Interrupted || (reader.hard_errors > 0 && e.kind() == std::io::ErrorKind::ConnectionReset)) => {
                            obs.failed_reads += 1;
                        }
                        Err(e) => {
                            return Err(Fail::new("encode:read-error", format!("encode_read failed ({e}) after the reader delivered {} bytes", reader.pos)));
                        }
                    }
                    if pos < piece_end {
                        // Finish the piece with a plain copy so that the walk terminates.
                        encoder.encode_copy(&plain[pos..piece_end]);
                        pos = piece_end;
                    }
                }
            }
            // Observe and drain after every call.
            if check_stream {
                let consumer = encoder.consumer();
                views_agree(&consumer, "encoder")?;
                let vis = visible(&consumer);
                let stable = seen.observe(&vis, "encoder")?;
                let lag = consumer.total_size() - stable;
                obs.max_lag = obs.max_lag.max(lag);
                if lag > ENCODER_LAG_BOUND {
                    return Err(Fail::new("encoder:lag", format!("{lag} bytes produced but not consumable after call #{} (bound {ENCODER_LAG_BOUND})", obs.pieces)));
                }
            }
            let action = if side.drains.is_empty() { Drain::Nothing } else { side.drains[i % side.drains.len()] };
            if action != Drain::Nothing {
                if !check_stream {
                    // `Seen` must know what is visible before anything is drained.
                    let consumer = encoder.consumer();
                    let vis = visible(&consumer);
                    seen.observe(&vis, "encoder")?;
                }
                let mid = do_drain(encoder.consumer(), &mut seen, action, "encoder")?;
                obs.drains_done += 1;
                obs.mid_slice_drain |= mid;
            }
            if piece.is_empty() {
                break;
            }
        }
        let _ = is_last;
    }

    let drained_early = seen.drained;
    let iovec = encoder.finish();
    let tail = match iovec.flatten() {
        Ok(v) => v,
        Err(_) => return Err(Fail::new("encoder:finish-pending", "finish() returned an iovec with a placeholder still pending")),
    };
    if iovec.total_size() != tail.len() {
        return Err(Fail::new("encoder:size-accounting", format!("after finish total_size is {} but {} bytes are readable", iovec.total_size(), tail.len())));
    }
    let mut output = seen.bytes[..drained_early].to_vec();
    output.extend_from_slice(&tail);
    if check_stream {
        // Everything ever observable must be a prefix of the complete output.
        if seen.bytes.len() > output.len() || seen.bytes[..] != output[..seen.bytes.len()] {
            return Err(Fail::new("encoder:not-prefix", "bytes observable before finish are not a prefix of the complete output"));
        }
    }
    Ok(EncRun {
        output,
        drained_early,
        obs,
    })
}

pub struct DecRun {
    /// `Ok(decoded bytes)` or the first error (rendered).
    pub result: Result<Vec<u8>, String>,
    pub obs: Obs,
}

/// Feeds `stream` to a Decoder as `side` describes.  Stops at the first
/// error, as the decoder is done then.
pub fn run_decoder(stream: &[u8], side: &Side, check_stream: bool) -> Result<DecRun, Fail> {
    run_decoder_pre(stream, &[], side, check_stream)
}

/// As [`run_decoder`], with `pre` already in the iovec handed to `Decoder::new_from_iovec`
/// (the decoded bytes must come after it; the prefix is checked and removed from the result).
pub fn run_decoder_pre(stream: &[u8], pre: &[u8], side: &Side, check_stream: bool) -> Result<DecRun, Fail> {
    let placed = bytespec::Placed::new(stream, bytespec::Placed::misalign_of(stream));
    let stream = placed.bytes();
    // Likewise a decoder abandoned mid-stream (mid-header or mid-chunk) first.
    if stream.len() % 3 == 0 && !stream.is_empty() && stream.len() <= 8192 {
        let upto = match encoded_interesting(stream).get(1) {
            Some(h) => (h + 1).min(stream.len()), // the first byte of the second header
            None => (stream.len() + 1) / 2,
        };
        let mut abandoned = Decoder::new();
        let _ = abandoned.decode_copy(&stream[..upto]);
        drop(abandoned);
    }
    let cuts = bytespec::resolve_cuts(&side.cuts, stream.len(), &encoded_interesting(stream));
    let pieces = bytespec::split_at_cuts(stream, &cuts);
    let mut obs = Obs::default();
    let mut seen = Seen::default();
    let mut decoder: Decoder<'_> = if !pre.is_empty() {
        let mut iovec = OwningIovec::new();
        iovec.push_copy(pre);
        Decoder::new_from_iovec(iovec)
    } else if stream.len() % 2 == 1 {
        Decoder::default()
    } else {
        Decoder::new()
    };

    let mut pos = 0usize;
    let mut piece_end = 0usize;
    for (i, piece) in pieces.iter().enumerate() {
        piece_end += piece.len();
        if i > 0 && (i + side.cuts.len() + side.drains.len()) % 3 == 1 {
            obs.empty_calls += 1;
            let r = match (i + side.methods.len()) % 4 {
                0 => decoder.decode(&stream[pos..pos]).map_err(|e| e.to_string()),
                1 => decoder.decode_copy(&[]).map_err(|e| e.to_string()),
                2 => {
                    let mut src: &[u8] = &[];
                    let anchored = decoder
                        .read_n(&mut src, 0, NonZeroUsize::new(1).unwrap())
                        .map_err(|e| Fail::new("decode:read_n-error", format!("read_n of zero bytes failed: {e}")))?;
                    decoder.decode_anchored(anchored).map_err(|e| e.to_string())
                }
                _ => {
                    let mut src: &[u8] = &stream[pos..];
                    match decoder.decode_read(&mut src, 0, NonZeroUsize::new(2).unwrap()) {
                        Ok(n) if n == 0 && src.len() == stream.len() - pos => Ok(()),
                        Ok(n) => return Err(Fail::new("decode:read-count", format!("decode_read of zero bytes returned {n} and consumed {} bytes of the reader", stream.len() - pos - src.len()))),
                        Err(e) => Err(e.to_string()),
                    }
                }
            };
            if let Err(e) = r {
                return Ok(DecRun { result: Err(format!("(in a zero-length call) {e}")), obs });
            }
        }
        while pos < piece_end || (piece.is_empty() && pos == piece_end) {
            let chunk = &stream[pos..piece_end];
            let m = if side.methods.is_empty() { &Method::Borrow } else { &side.methods[i % side.methods.len()] };
            obs.methods_used.insert(method_name(m));
            obs.pieces += 1;
            if !side.nudges.is_empty() {
                apply_nudge(decoder.consumer().arena(), side.nudges[i % side.nudges.len()]);
            }
            let step: Result<(), String> = match m {
                Method::Borrow => {
                    pos = piece_end;
                    decoder.decode(chunk).map_err(|e| e.to_string())
                }
                Method::Copy => {
                    pos = piece_end;
                    decoder.decode_copy(chunk).map_err(|e| e.to_string())
                }
                Method::Anchored => {
                    let mut src = chunk;
                    let anchored = decoder
                        .read_n(&mut src, chunk.len(), NonZeroUsize::new(3).unwrap())
                        .map_err(|e| Fail::new("decode:read_n-error", format!("read_n from a slice failed: {e}")))?;
                    if anchored.slice() != chunk {
                        return Err(Fail::new("decode:read_n-content", "read_n from a slice did not return the slice's bytes"));
                    }
                    pos = piece_end;
                    decoder.decode_anchored(anchored).map_err(|e| e.to_string())
                }
                Method::AnchoredForeign => {
                    let mut foreign = owning_iovec::ByteArena::new();
                    let mut src = chunk;
                    let anchored = foreign
                        .read_n(&mut src, chunk.len(), NonZeroUsize::new(3).unwrap())
                        .map_err(|e| Fail::new("decode:read_n-error", format!("read_n from a slice failed: {e}")))?;
                    pos = piece_end;
                    if i % 2 == 1 {
                        drop(foreign);
                    }
                    decoder.decode_anchored(anchored).map_err(|e| e.to_string())
                }
                Method::Read { script, attempts } => {
                    let mut reader = ScriptReader::new(&stream[pos..], script);
                    let r = decoder.decode_read(&mut reader, chunk.len(), NonZeroUsize::new(*attempts as usize).unwrap());
                    obs.interrupts += reader.interrupts;
                    obs.short_reads += reader.short_reads;
                    match r {
                        Ok(n) => {
                            if n != reader.pos {
                                return Err(Fail::new("decode:read-count", format!("decode_read returned {n} but the reader delivered {}", reader.pos)));
                            }
                            pos += n;
                            if pos < piece_end {
                                let rest = &stream[pos..piece_end];
                                pos = piece_end;
                                decoder.decode_copy(rest).map_err(|e| e.to_string())
                            } else {
                                Ok(())
                            }
                        }
                        Err(e) if reader.pos == 0 && (e.kind() == std::io::ErrorKind::Interrupted || (reader.hard_errors > 0 && e.kind() == std::io::ErrorKind::ConnectionReset)) => {
                            obs.failed_reads += 1;
                            let rest = &stream[pos..piece_end];
                            pos = piece_end;
                            decoder.decode_copy(rest).map_err(|e| e.to_string())
                        }
                        Err(e) => {
                            // A decoding error surfaces as ErrorKind::Other; the bytes were read.
                            pos += reader.pos;
                            Err(e.to_string())
                        }
                    }
                }
            };
            if let Err(e) = step {
                return Ok(DecRun { result: Err(e), obs });
            }
            {
                let consumer = decoder.consumer();
                views_agree(&consumer, "decoder")?;
                let vis = visible(&consumer);
                let stable = seen.observe(&vis, "decoder")?;
                if check_stream {
                    let lag = consumer.total_size() - stable;
                    if lag != 0 || consumer.iovs().is_err() {
                        return Err(Fail::new("decoder:lag", format!("decoder holds {lag} produced but unconsumable bytes (iovs ok: {})", consumer.iovs().is_ok())));
                    }
                }
            }
            let action = if side.drains.is_empty() { Drain::Nothing } else { side.drains[i % side.drains.len()] };
            if action != Drain::Nothing {
                let mid = do_drain(decoder.consumer(), &mut seen, action, "decoder")?;
                obs.drains_done += 1;
                obs.mid_slice_drain |= mid;
            }
            if piece.is_empty() {
                break;
            }
        }
    }

    let drained_early = seen.drained;
    match decoder.finish() {
        Err(e) => Ok(DecRun {
            result: Err(e.to_string()),
            obs,
        }),
        Ok(iovec) => {
            let tail = match iovec.flatten() {
                Ok(v) => v,
                Err(_) => return Err(Fail::new("decoder:finish-pending", "Decoder::finish returned an iovec with a placeholder pending")),
            };
            let mut output = seen.bytes[..drained_early].to_vec();
            output.extend_from_slice(&tail);
            if seen.bytes.len() > output.len() || seen.bytes[..] != output[..seen.bytes.len()] {
                return Err(Fail::new("decoder:not-prefix", "bytes observable before finish are not a prefix of the decoded output"));
            }
            if output.len() < pre.len() || output[..pre.len()] != *pre {
                return Err(Fail::new("decode:prefix-lost", "bytes already in the iovec handed to Decoder::new_from_iovec are not at the front of the output"));
            }
            output.drain(..pre.len());
            Ok(DecRun { result: Ok(output), obs })
        }
    }
}

/// One `encode_copy` call on a fresh encoder.
pub fn encode_once(plain: &[u8]) -> Vec<u8> {
    let mut e = Encoder::new();
    e.encode_copy(plain);
    e.finish().flatten().expect("no placeholder pending after finish")
}

pub fn mismatch(what: &str, got: &[u8], want: &[u8]) -> String {
    let at = got.iter().zip(want.iter()).position(|(a, b)| a != b).unwrap_or(got.len().min(want.len()));
    format!(
        "{what}: first difference at offset {at} (got {} bytes, expected {}); got {} expected {}",
        got.len(),
        want.len(),
        show(&got[at.saturating_sub(4).min(got.len())..(at + 12).min(got.len())]),
        show(&want[at.saturating_sub(4).min(want.len())..(at + 12).min(want.len())])
    )
}
