//! C04 — Pending backpatches are never observable; filled ones unblock everything.
use serde_json::Value;

use super::iovec_sm::{self, History, Mix, Op, Profile};
use super::{parse_case, PropDef};
use crate::engine::{self, CaseResult, Ctx, Outcome, Report, Tier};

const PROFILE: Profile = Profile {
    check_pipe: true,
    check_mem: false,
    check_leak: false,
};

pub fn check_case(h: &History) -> CaseResult {
    let st = iovec_sm::run_history(h, PROFILE)?;
    let nontrivial = st.out_of_order_with_3_pending || st.consume_while_pending > 0;
    Ok(Outcome::new(nontrivial)
        .label_if(st.out_of_order_with_3_pending, ">=3_pending_filled_out_of_order")
        .label_if(st.out_of_order_fills > 0, "out_of_order_fill")
        .label_if(st.consume_while_pending > 0, "consume_between_register_and_fill")
        .label_if(st.max_pending >= 4, ">=4_pending")
        .label_if(st.merges > 0, "merge")
        .label_if(st.takes > 0, "take_with_history")
        .label_if(st.clones_with_pending > 0, "clone_with_placeholder_pending"))
}

/// Directed family: n placeholders separated by small pushes, filled in every
/// order (all permutations for n <= 5), with consumption attempts in between.
fn permutation_histories(n: usize) -> Vec<History> {
    fn perms(n: usize) -> Vec<Vec<usize>> {
        if n == 0 {
            return vec![vec![]];
        }
        let mut out = vec![];
        for p in perms(n - 1) {
            for i in 0..=p.len() {
                let mut q = p.clone();
                q.insert(i, n - 1);
                out.push(q);
            }
        }
        out
    }
    let mut out = vec![];
    for variant in 0..3u32 {
        for perm in perms(n) {
            let mut ops = vec![];
            for i in 0..n {
                let len = match variant {
                    0 => 70, // borrowed, never merged
                    1 => 3,  // copied, merges into the placeholder's slice
                    _ => [3u32, 70, 250, 5][i % 4],
                };
                ops.push(Op::Push { slot: 0, off: (i * 1000) as u32, len });
                ops.push(Op::Register { slot: 0, len: 1 + (i % 3) as u8, big: 0 });
            }
            ops.push(Op::PushCopy { slot: 0, off: 77, len: 9 });
            // Fill in the permuted order: `which` indexes the list of outstanding backrefs.
            let mut outstanding: Vec<usize> = (0..n).collect();
            for target in perm {
                let pos = outstanding.iter().position(|x| *x == target).unwrap();
                let which = ((pos * 256 + 128) / outstanding.len()) as u8;
                outstanding.remove(pos);
                ops.push(Op::Backfill { slot: 0, which });
                ops.push(Op::AdvanceFrac { slot: 0, f: 200 });
            }
            ops.push(Op::Advance { slot: 0, n: 1_000_000 });
            out.push(History { ops, drop_order: vec![] });
        }
    }
    out
}

pub fn run(ctx: &Ctx, rep: &mut Report) {
    for n in 1..=ctx.tier.pick(5, 6) {
        engine::enumerate(ctx, rep, "fill-order-permutations", permutation_histories(n).into_iter(), check_case);
    }
    rep.sub_set("fill-order-permutations", "exhaustive", serde_json::json!(true));
    rep.sub_set("fill-order-permutations", "what", serde_json::json!("n = 1..5 (6) placeholders x all n! fill orders x 3 push-size variants, partial consumption after every fill"));
    let cases = ctx.share(ctx.tier.pick(120_000, 2_400_000));
    engine::drive(ctx, rep, "backpatch-histories", iovec_sm::history(Mix::Backpatch, 60), cases, check_case);
    let cases = ctx.share(ctx.tier.pick(30_000, 600_000));
    engine::drive(ctx, rep, "general-histories", iovec_sm::history(Mix::General, 80), cases, check_case);
}

fn replay(_ctx: &Ctx, _group: &str, case: &Value) -> CaseResult {
    check_case(&parse_case::<History>(case)?)
}

pub fn def() -> PropDef {
    PropDef {
        id: "C04",
        rule: "Same interpreter and pipe model as C03, with an operation mix that keeps many placeholders in flight (register_patch and backfill are 30% of the operations; the outstanding placeholder to fill is picked at random, so most fills are out of order), small pushes between registration and fill (so the placeholder's slice keeps growing by merges) and byte-granular consumption right up to the blocked slice. clone() is also called while placeholders are pending (the copy must keep hiding them and what follows; each outstanding token is then used once, on the original or on the copy). Placeholders are 0..4 bytes, and in one registration out of four 5..4200 bytes; fill_chunk operations use up the arena's current chunk until a chosen number of bytes (0..4200) remain, by a push_copy into the iovec or by a dropped allocation, so that placeholders are registered at the very end of a chunk. With p = the model offset of the earliest pending placeholder, after every operation: every read-side view (stable_prefix, front, iovs in both arms, flatten in both arms, iteration, stable_consumer, Read, consume, advance_slices) exposes only bytes at offsets < p and they equal the model; a placeholder is never backfilled at an offset below the high-water mark of observed offsets (a byte once observed never changes); iovs / flatten / stable_consumer / has_pending_backrefs report success exactly when no placeholder is pending; with none pending every buffered byte is consumable. fill-order-permutations enumerates n = 1..5 (6) placeholders x all n! fill orders x 3 push-size variants. Non-trivial: >= 3 placeholders simultaneously pending with one filled out of order, or bytes consumed between a registration and its fill. Distinct: hash of the serialised history / by enumeration.",
        assumptions: &["as C03; only an upper bound is put on what is visible while a placeholder is pending (the implementation hides whole slices)"],
        exhaustive_note: Some("fill-order-permutations: complete enumeration of fill orders"),
        shards: |_t: Tier| 16,
        run,
        replay,
    }
}
