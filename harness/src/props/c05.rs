//! C05 — Every slice handed out points into live memory (no use-after-free / overrun).
use std::num::NonZeroUsize;

use hcobs::{Chunk, Decoder, Encoder, StreamChunker, StreamReader};
use owning_iovec::{AnchoredSlice, ByteArena, OwningIovec};
use proptest::prelude::*;
use serde::{Deserialize, Serialize};
use serde_json::Value;

use super::codec::{self, CodecCase, Drain, Method};
use super::iovec_sm::{self, classify_range, with_quarantine, History, Mix, Profile};
use super::stream_in::{self, CyclicReader, Delivery, StreamSpec};
use super::{c06, parse_case, PropDef};
use crate::engine::bytespec;
use crate::engine::{self, CaseResult, Ctx, Fail, Outcome, Report, Tier};
use crate::refimpl::hcobs_ref::{self, LIMIT_FIRST, LIMIT_LATER};

const PROFILE: Profile = Profile {
    check_pipe: true,
    check_mem: true,
    check_leak: false,
};

pub fn check_history(h: &History) -> CaseResult {
    let st = iovec_sm::run_history(h, PROFILE)?;
    Ok(Outcome::new(st.retired_while_others_alive > 0 || st.anchored_partially_consumed)
        .label_if(st.retired_while_others_alive > 0, "chunk_released_while_others_alive")
        .label_if(st.anchored_partially_consumed, "anchored_push_partially_consumed")
        .label_if(st.held_ops > 0, "held_anchored_slices")
        .label_if(st.clones > 0, "clone")
        .label_if(st.taken_arenas > 0, "arena_taken_or_swapped")
        .label_if(st.chunk_creations >= 3, ">=3_chunks"))
}

fn range_of(b: &[u8]) -> (usize, usize) {
    let r = b.as_ptr_range();
    (r.start as usize, r.end as usize)
}

/// Encoder and Decoder fed with anchored / read input and drained partially:
/// every consumable slice must be live and hold the expected bytes.
pub fn check_codec(case: &CodecCase) -> CaseResult {
    with_quarantine(|| check_codec_inner(case))
}

fn check_visible(what: &str, consumer: &owning_iovec::ConsumingIovec<'_>, expected: &[u8], offset: usize, lent: &[(usize, usize)]) -> Result<usize, Fail> {
    let mut off = offset;
    let mut owned: Vec<(usize, usize)> = vec![];
    for (k, s) in consumer.stable_prefix().iter().enumerate() {
        let start = s.as_ptr() as usize;
        if classify_range(start, s.len(), lent, &|| format!("{what} slice {k}"))? {
            owned.push((start, start + s.len()));
        }
        if off + s.len() > expected.len() || expected[off..off + s.len()] != **s {
            return Err(Fail::new("memory:content", format!("{what}: consumable bytes at output offset {off} differ from the expected output (stale or overwritten memory)")));
        }
        off += s.len();
    }
    owned.sort_unstable();
    if owned.windows(2).any(|w| w[1].0 < w[0].1) {
        return Err(Fail::new("memory:overlap", format!("{what}: two owned slices overlap")));
    }
    Ok(off - offset)
}

fn check_codec_inner(case: &CodecCase) -> CaseResult {
    let plain = case.payload.bytes();
    let expected = hcobs_ref::encode(&plain, LIMIT_FIRST, LIMIT_LATER);
    let lent = [range_of(&plain)];
    let cuts = bytespec::resolve_cuts(&case.enc.cuts, plain.len(), &codec::plain_interesting(&plain));
    let pieces = bytespec::split_at_cuts(&plain, &cuts);
    let mut chunks_retired_midway = false;
    let mut partial = false;

    let mut encoder: Encoder<'_> = Encoder::new();
    let mut drained = 0usize;
    for (i, piece) in pieces.iter().enumerate() {
        let m = if case.enc.methods.is_empty() { &Method::Anchored } else { &case.enc.methods[i % case.enc.methods.len()] };
        if !case.enc.nudges.is_empty() {
            codec::apply_nudge(encoder.consumer().arena(), case.enc.nudges[i % case.enc.nudges.len()]);
        }
        match m {
            Method::Borrow => encoder.encode(piece),
            Method::Copy => encoder.encode_copy(piece),
            Method::Anchored | Method::AnchoredForeign => {
                let mut src = *piece;
                let a = encoder.read_n(&mut src, piece.len(), NonZeroUsize::new(2).unwrap()).map_err(|e| Fail::new("read_n:error", e.to_string()))?;
                encoder.encode_anchored(a);
            }
            Method::Read { .. } => {
                let mut src = *piece;
                let n = encoder.encode_read(&mut src, piece.len(), NonZeroUsize::new(2).unwrap()).map_err(|e| Fail::new("encode_read:error", e.to_string()))?;
                if n != piece.len() {
                    return Err(Fail::new("encode_read:count", format!("encode_read returned {n} for a {}-byte slice reader", piece.len())));
                }
            }
        }
        check_visible("encoder", &encoder.consumer(), &expected, drained, &lent)?;
        let action = if case.enc.drains.is_empty() { Drain::AdvanceFrac(100) } else { case.enc.drains[i % case.enc.drains.len()] };
        let before = owning_iovec::verif::retired_chunks().len();
        let mut c = encoder.consumer();
        let avail: usize = c.stable_prefix().iter().map(|s| s.len()).sum();
        let n = match action {
            Drain::Nothing => 0,
            Drain::Consume(k) => {
                let k = (k as usize).min(c.stable_prefix().len());
                let bytes: usize = c.stable_prefix()[..k].iter().map(|s| s.len()).sum();
                c.consume(k);
                bytes
            }
            Drain::AdvanceFrac(f) => c.advance_slices(avail * f as usize / 255),
            Drain::AdvanceAbs(n) => c.advance_slices(n as usize),
            Drain::Read(n) => c.advance_slices((n as usize).min(avail)),
            Drain::All => c.advance_slices(avail),
        };
        partial |= n > 0 && n < avail;
        drained += n;
        if owning_iovec::verif::retired_chunks().len() > before {
            chunks_retired_midway = true;
        }
        check_visible("encoder (after drain)", &encoder.consumer(), &expected, drained, &lent)?;
    }
    let mut iovec = encoder.finish();
    let vis = check_visible("encoder output", &iovec.consumer(), &expected, drained, &lent)?;
    if drained + vis != expected.len() {
        return Err(Fail::new("memory:content", "encoder output is incomplete".to_string()));
    }

    // Decoder over the encoded stream, anchored input.
    let dlent = [range_of(&expected)];
    let dcuts = bytespec::resolve_cuts(&case.dec.cuts, expected.len(), &codec::encoded_interesting(&expected));
    let dpieces = bytespec::split_at_cuts(&expected, &dcuts);
    let mut decoder: Decoder<'_> = Decoder::new();
    let mut ddrained = 0usize;
    for (i, piece) in dpieces.iter().enumerate() {
        let m = if case.dec.methods.is_empty() { &Method::Anchored } else { &case.dec.methods[i % case.dec.methods.len()] };
        if !case.dec.nudges.is_empty() {
            codec::apply_nudge(decoder.consumer().arena(), case.dec.nudges[i % case.dec.nudges.len()]);
        }
        let r = match m {
            Method::Borrow => decoder.decode(piece).map_err(|e| e.to_string()),
            Method::Copy => decoder.decode_copy(piece).map_err(|e| e.to_string()),
            Method::Anchored | Method::AnchoredForeign => {
                let mut src = *piece;
                let a = decoder.read_n(&mut src, piece.len(), NonZeroUsize::new(2).unwrap()).map_err(|e| Fail::new("read_n:error", e.to_string()))?;
                decoder.decode_anchored(a).map_err(|e| e.to_string())
            }
            Method::Read { .. } => {
                let mut src = *piece;
                decoder.decode_read(&mut src, piece.len(), NonZeroUsize::new(2).unwrap()).map(|_| ()).map_err(|e| e.to_string())
            }
        };
        r.map_err(|e| Fail::new("decoder:rejected-valid-stream", e))?;
        check_visible("decoder", &decoder.consumer(), &plain, ddrained, &dlent)?;
        let action = if case.dec.drains.is_empty() { Drain::AdvanceFrac(100) } else { case.dec.drains[i % case.dec.drains.len()] };
        let before = owning_iovec::verif::retired_chunks().len();
        let mut c = decoder.consumer();
        let avail: usize = c.stable_prefix().iter().map(|s| s.len()).sum();
        let n = match action {
            Drain::Nothing => 0,
            Drain::Consume(k) => {
                let k = (k as usize).min(c.stable_prefix().len());
                let bytes: usize = c.stable_prefix()[..k].iter().map(|s| s.len()).sum();
                c.consume(k);
                bytes
            }
            Drain::AdvanceFrac(f) => c.advance_slices(avail * f as usize / 255),
            Drain::AdvanceAbs(n) => c.advance_slices(n as usize),
            Drain::Read(n) => c.advance_slices((n as usize).min(avail)),
            Drain::All => c.advance_slices(avail),
        };
        partial |= n > 0 && n < avail;
        ddrained += n;
        if owning_iovec::verif::retired_chunks().len() > before {
            chunks_retired_midway = true;
        }
        check_visible("decoder (after drain)", &decoder.consumer(), &plain, ddrained, &dlent)?;
    }
    let mut out = decoder.finish().map_err(|e| Fail::new("decoder:rejected-valid-stream", e.to_string()))?;
    let vis = check_visible("decoder output", &out.consumer(), &plain, ddrained, &dlent)?;
    if ddrained + vis != plain.len() {
        return Err(Fail::new("memory:content", "decoder output is incomplete".to_string()));
    }
    Ok(Outcome::new(chunks_retired_midway || partial)
        .label_if(chunks_retired_midway, "chunk_released_mid_stream")
        .label_if(partial, "partial_drain"))
}

/// A decoder fed a stream that becomes invalid at a chunk header: what it
/// produced before the error stays reachable (`consumer()`, `take_iovec()`) and must
/// stay alive, whatever happens to the arenas afterwards.
#[derive(Clone, Debug, PartialEq, Eq, Hash, Serialize, Deserialize)]
pub struct DecErrCase {
    pub payload: bytespec::ByteSpec,
    /// Which chunk header is overwritten (scaled over the headers of the encoding).
    pub which_header: u8,
    /// The byte written there (253..=255 are never valid in a header).
    pub bad: u8,
    pub dec: codec::Side,
    /// Arena-read pieces come from a separate arena (dropped after the error) instead of the decoder's own.
    pub foreign_arena: bool,
    /// What happens after the error: 0 flush the decoder arena's cache, 1 take_iovec and flush,
    /// 2 swap the arena for a fresh one and drop the old one, 3 nothing.
    pub after: u8,
}

pub fn check_decoder_error(case: &DecErrCase) -> CaseResult {
    with_quarantine(|| check_decoder_error_inner(case))
}

fn check_decoder_error_inner(case: &DecErrCase) -> CaseResult {
    let plain = case.payload.bytes();
    let mut stream = hcobs_ref::encode(&plain, LIMIT_FIRST, LIMIT_LATER);
    let headers = codec::encoded_interesting(&stream);
    if headers.is_empty() {
        return Ok(Outcome::new(false));
    }
    let h = headers[(case.which_header as usize * headers.len()) >> 8];
    stream[h] = case.bad;
    // A few bytes after the bad header, so that the error may also be met in a later call.
    stream.truncate((h + 1 + (case.bad as usize % 7)).min(stream.len()));
    let lent = [range_of(&stream)];
    let cuts = bytespec::resolve_cuts(&case.dec.cuts, stream.len(), &[h, h + 1]);
    let pieces = bytespec::split_at_cuts(&stream, &cuts);
    let mut foreign = ByteArena::new();
    let mut decoder: Decoder<'_> = Decoder::new();
    let mut failed = false;
    let mut borrowed_from_arena = false;
    for (i, piece) in pieces.iter().enumerate() {
        let m = if case.dec.methods.is_empty() { &Method::Anchored } else { &case.dec.methods[i % case.dec.methods.len()] };
        if !case.dec.nudges.is_empty() {
            codec::apply_nudge(decoder.consumer().arena(), case.dec.nudges[i % case.dec.nudges.len()]);
            if case.foreign_arena {
                codec::apply_nudge(&mut foreign, case.dec.nudges[i % case.dec.nudges.len()]);
            }
        }
        let r = match m {
            Method::Borrow => decoder.decode(piece).map_err(|e| e.to_string()),
            Method::Copy => decoder.decode_copy(piece).map_err(|e| e.to_string()),
            Method::Anchored | Method::AnchoredForeign => {
                let mut src = *piece;
                let a = if case.foreign_arena {
                    foreign.read_n(&mut src, piece.len(), NonZeroUsize::new(2).unwrap())
                } else {
                    decoder.read_n(&mut src, piece.len(), NonZeroUsize::new(2).unwrap())
                }
                .map_err(|e| Fail::new("read_n:error", e.to_string()))?;
                borrowed_from_arena |= piece.len() > 64;
                decoder.decode_anchored(a).map_err(|e| e.to_string())
            }
            Method::Read { .. } => {
                let mut src = *piece;
                borrowed_from_arena |= piece.len() > 64;
                decoder.decode_read(&mut src, piece.len(), NonZeroUsize::new(2).unwrap()).map(|_| ()).map_err(|e| e.to_string())
            }
        };
        // Whatever the verdict, what is visible is a prefix of the payload (the stream is intact before the bad header).
        check_visible("decoder", &decoder.consumer(), &plain, 0, &lent)?;
        if r.is_err() {
            failed = true;
            break;
        }
    }
    // The caller lets go of everything it owns; the decoder's output must not depend on it.
    drop(foreign);
    let visible = match case.after % 4 {
        0 => {
            decoder.consumer().arena().flush_cache();
            check_visible("decoder after the error and flush_cache", &decoder.consumer(), &plain, 0, &lent)?
        }
        1 => {
            let mut out = decoder.take_iovec();
            out.arena().flush_cache();
            check_visible("iovec taken from the decoder after the error", &out.consumer(), &plain, 0, &lent)?
        }
        2 => {
            let old = decoder.consumer().swap_arena(ByteArena::new());
            drop(old);
            check_visible("decoder after the error and an arena swap", &decoder.consumer(), &plain, 0, &lent)?
        }
        _ => check_visible("decoder after the error", &decoder.consumer(), &plain, 0, &lent)?,
    };
    Ok(Outcome::new(failed && visible > 0 && borrowed_from_arena)
        .label_if(failed, "decoding_error_met")
        .label_if(visible > 0, "output_visible_after_error")
        .label_if(visible > 64, "output>64_bytes_after_error")
        .label_if(case.foreign_arena, "foreign_arena")
        .label_if(borrowed_from_arena, "arena_read_piece>64"))
}

fn decoder_error_case() -> impl Strategy<Value = DecErrCase> {
    (
        bytespec::hcobs_payload(false),
        any::<u8>(),
        prop_oneof![3 => Just(0xFFu8), 1 => Just(0xFEu8), 1 => Just(0xFDu8), 1 => 253u8..=255],
        codec::side(6),
        any::<bool>(),
        0u8..4,
        proptest::collection::vec(codec::nudge(), 0..4),
    )
        .prop_map(|(payload, which_header, bad, mut dec, foreign_arena, after, nudges)| {
            // Arena-read input is the common case.
            dec.methods.push(Method::Anchored);
            dec.methods.push(Method::Read { script: vec![], attempts: 2 });
            dec.nudges = nudges;
            DecErrCase {
                payload,
                which_header,
                bad,
                dec,
                foreign_arena,
                after,
            }
        })
}

#[derive(Clone, Debug, PartialEq, Eq, Hash, Serialize, Deserialize)]
pub struct StreamCase {
    pub stream: StreamSpec,
    pub delivery: Delivery,
    /// Order in which held chunks / record clones are released at the end.
    pub drop_order: Vec<u8>,
    /// Keep a clone of every k-th record (reader) / every chunk (chunker).
    pub keep_every: u8,
    /// Arena action applied after record / chunk `i` (reader: through the record's `arena()`).
    #[serde(default)]
    pub nudges: Vec<codec::Nudge>,
}

/// StreamChunker: every Data chunk is held until the end and re-verified after every pump.
pub fn check_chunker(case: &StreamCase) -> CaseResult {
    with_quarantine(|| {
        let stream = case.stream.bytes();
        let block = case.delivery.block_size().unwrap_or(hcobs::DEFAULT_BLOCK_SIZE);
        let lent = [range_of(&stream)];
        let mut arena = ByteArena::new();
        stream_in::prepare_arena_for(&mut arena, &case.delivery);
        let mut other_arena = ByteArena::new();
        let mut reader = CyclicReader::new(&stream, &case.delivery);
        let mut chunker = StreamChunker::default();
        let mut held: Vec<(AnchoredSlice, usize, usize)> = vec![]; // slice, start, end in the stream
        let mut q = 0usize;
        let mut retired_midway = false;
        let passes = std::cell::Cell::new(0usize);
        let verify = |held: &Vec<(AnchoredSlice, usize, usize)>| -> Result<(), Fail> {
            let registry = iovec_sm::Registry::snapshot();
            let pass = passes.get();
            passes.set(pass + 1);
            let mut ranges = vec![];
            for (k, (s, start, end)) in held.iter().enumerate() {
                // With hundreds of chunks held, re-verify the newest ones and a rotating sample every time.
                if held.len() > 64 && k + 8 < held.len() && (k + pass) % (held.len() / 32) != 0 {
                    continue;
                }
                let b = s.slice();
                let addr = b.as_ptr() as usize;
                if registry.classify(addr, b.len(), &lent, &|| format!("held Data chunk {k}"))? {
                    ranges.push((addr, addr + b.len()));
                }
                if *b != stream[*start..*end] {
                    return Err(Fail::new("memory:content", format!("held Data chunk {k} (stream bytes {start}..{end}) changed while later chunks were pumped")));
                }
            }
            ranges.sort_unstable();
            if ranges.windows(2).any(|w| w[1].0 < w[0].1) {
                return Err(Fail::new("memory:overlap", "two Data chunks overlap in memory".to_string()));
            }
            Ok(())
        };
        for _ in 0..(2 * stream.len() + 16) {
            let before = owning_iovec::verif::retired_chunks().len();
            let block = case.delivery.block_size_at(passes.get()).unwrap_or(hcobs::DEFAULT_BLOCK_SIZE);
            let which = if case.delivery.two_arenas && passes.get() % 2 == 0 { &mut other_arena } else { &mut arena };
            let c = chunker.pump(which, &mut reader, block).map_err(|e| Fail::new("chunker:io-error", e.to_string()))?;
            if owning_iovec::verif::retired_chunks().len() > before {
                retired_midway = true;
            }
            match c {
                Chunk::Eof => break,
                Chunk::Sentinel(o) => q = o as usize,
                Chunk::Data((o, s)) => {
                    let end = o as usize;
                    let start = end.saturating_sub(s.slice().len());
                    if start != q || end > stream.len() {
                        return Err(Fail::new("chunker:offsets", format!("Data chunk reported {start}..{end} at position {q}")));
                    }
                    q = end;
                    held.push((s, start, end));
                    // (only for the first chunks: every held chunk pins its whole arena chunk, and a
                    // flush after each of tens of thousands of them would pin gigabytes)
                    if !case.nudges.is_empty() && held.len() <= 64 {
                        codec::apply_nudge(&mut arena, case.nudges[held.len() % case.nudges.len()]);
                    }
                }
            }
            // With thousands of chunks held (large streams, small blocks), re-verify every 8th pump.
            if held.len() <= 1024 || passes.get() % 8 == 0 {
                verify(&held)?;
            } else {
                passes.set(passes.get() + 1);
            }
        }
        // Flush the arena's cache and release the chunks in the generated order.
        arena.flush_cache();
        verify(&held)?;
        drop(arena);
        drop(other_arena);
        verify(&held)?;
        let n_held = held.len();
        let mut order = case.drop_order.iter();
        let mut removed = 0usize;
        while !held.is_empty() {
            let i = order.next().copied().unwrap_or(0) as usize % held.len();
            // (swap_remove: the order in which the survivors are listed does not matter)
            held.swap_remove(i);
            removed += 1;
            if held.len() <= 64 || removed % 16 == 0 {
                verify(&held)?;
            }
        }
        Ok(Outcome::new(retired_midway || n_held >= 3)
            .label_if(retired_midway, "chunk_released_while_data_held")
            .label_if(n_held >= 3, ">=3_chunks_held")
            .label_if(block < 8, "small_block"))
    })
}

/// StreamReader: returned records are inspected, and clones of records are
/// kept across later calls.
pub fn check_reader(case: &StreamCase) -> CaseResult {
    with_quarantine(|| {
        let stream = case.stream.bytes();
        let _ = case.delivery.block_size();
        let mut calls = 0usize;
        let lent = [range_of(&stream)];
        let mut reader = CyclicReader::new(&stream, &case.delivery);
        let mut sr = StreamReader::new();
        let judge = StreamReader::chunk_judge(usize::MAX, None);
        let mut kept: Vec<(OwningIovec<'static>, Vec<u8>)> = vec![];
        let mut records = 0usize;
        let mut retired_midway = false;
        let passes = std::cell::Cell::new(0usize);
        let verify = |kept: &Vec<(OwningIovec<'static>, Vec<u8>)>| -> Result<(), Fail> {
            let registry = iovec_sm::Registry::snapshot();
            let pass = passes.get();
            passes.set(pass + 1);
            for (k, (io, want)) in kept.iter().enumerate() {
                if kept.len() > 64 && k + 8 < kept.len() && (k + pass) % (kept.len() / 32) != 0 {
                    continue;
                }
                let mut got = vec![];
                for (j, s) in io.stable_prefix().iter().enumerate() {
                    registry.classify(s.as_ptr() as usize, s.len(), &lent, &|| format!("kept clone of record {k}, slice {j}"))?;
                    got.extend_from_slice(s);
                }
                if got != *want {
                    return Err(Fail::new("memory:content", format!("kept clone of record {k} changed while later records were read")));
                }
            }
            Ok(())
        };
        for _ in 0..(stream.len() + 4) {
            let before = owning_iovec::verif::retired_chunks().len();
            let block = case.delivery.block_size_at(calls);
            calls += 1;
            let r = sr.next_record_bytes(&mut reader, &judge, block).map_err(|e| Fail::new("reader:io-error", e.to_string()))?;
            if owning_iovec::verif::retired_chunks().len() > before {
                retired_midway = true;
            }
            let Some((iovec, range)) = r else { break };
            records += 1;
            let want = hcobs_ref::decode(&stream[range.start as usize..range.end as usize], LIMIT_FIRST, LIMIT_LATER)
                .map_err(|e| Fail::new("reader:wrong-record", format!("returned range {range:?} is not a valid record ({e:?})")))?;
            let mut got = vec![];
            for (j, s) in iovec.stable_prefix().iter().enumerate() {
                classify_range(s.as_ptr() as usize, s.len(), &lent, &|| format!("record {records}, slice {j}"))?;
                got.extend_from_slice(s);
            }
            if got != want {
                return Err(Fail::new("memory:content", format!("record {records} at {range:?} holds other bytes than its decoding")));
            }
            if case.keep_every > 0 && records % case.keep_every as usize == 0 {
                kept.push((iovec.clone(), want));
            }
            if !case.nudges.is_empty() {
                codec::apply_nudge(iovec.arena(), case.nudges[records % case.nudges.len()]);
            }
            verify(&kept)?;
        }
        drop(sr);
        verify(&kept)?;
        let n_kept = kept.len();
        let mut order = case.drop_order.iter();
        let mut removed = 0usize;
        while !kept.is_empty() {
            let i = order.next().copied().unwrap_or(0) as usize % kept.len();
            kept.swap_remove(i);
            removed += 1;
            if kept.len() <= 64 || removed % 16 == 0 {
                verify(&kept)?;
            }
        }
        Ok(Outcome::new(n_kept >= 1 && records >= 2)
            .label_if(retired_midway, "chunk_released_between_records")
            .label_if(n_kept >= 2, ">=2_record_clones_kept")
            .label_if(records >= 3, ">=3_records"))
    })
}

fn anchored_codec_case(allow_large: bool) -> impl Strategy<Value = CodecCase> {
    (codec::codec_case(allow_large), proptest::collection::vec(codec::nudge(), 1..5), proptest::collection::vec(codec::nudge(), 1..5)).prop_map(|(mut c, n1, n2)| {
        // Make arena-read input (read_n + *_anchored, encode_read / decode_read) the common case
        // on both sides, with arena turnovers forced at generated points.
        for side in [&mut c.enc, &mut c.dec] {
            if side.methods.is_empty() {
                side.methods.push(Method::Anchored);
            }
            side.methods.push(Method::Anchored);
            side.methods.push(Method::Read { script: vec![], attempts: 2 });
        }
        c.enc.nudges = n1;
        c.dec.nudges = n2;
        c.pre = Default::default();
        c
    })
}

fn stream_case(max_tokens: usize) -> impl Strategy<Value = StreamCase> {
    (
        stream_in::stream_spec(max_tokens),
        stream_in::delivery(),
        proptest::collection::vec(any::<u8>(), 0..8),
        0u8..4,
        prop_oneof![1 => Just(vec![]), 1 => proptest::collection::vec(codec::nudge(), 1..5)],
    )
        .prop_map(|(stream, delivery, drop_order, keep_every, nudges)| StreamCase {
            stream,
            delivery,
            drop_order,
            keep_every,
            nudges,
        })
}

pub fn run(ctx: &Ctx, rep: &mut Report) {
    let cases = ctx.share(ctx.tier.pick(50_000, 1_000_000));
    engine::drive(ctx, rep, "iovec-histories", iovec_sm::history(Mix::Memory, 60), cases, check_history);
    let cases = ctx.share(ctx.tier.pick(10_000, 200_000));
    engine::drive(ctx, rep, "iovec-general-histories", iovec_sm::history(Mix::General, 80), cases, check_history);
    // Every third operation and every other drop on another thread (one thread at a time).
    let cases = ctx.share(ctx.tier.pick(4_000, 100_000));
    engine::drive(ctx, rep, "iovec-thread-handoff", iovec_sm::history(Mix::Memory, 60), cases, |h: &History| iovec_sm::with_thread_handoff(|| check_history(h)));
    let cases = ctx.share(ctx.tier.pick(10_000, 200_000));
    engine::drive(ctx, rep, "codec-anchored", anchored_codec_case(false), cases, check_codec);
    let cases = ctx.share(ctx.tier.pick(400, 50_000));
    engine::drive(ctx, rep, "codec-anchored-large", anchored_codec_case(true), cases, check_codec);
    let cases = ctx.share(ctx.tier.pick(12_000, 300_000));
    engine::drive(ctx, rep, "decoder-errors", decoder_error_case(), cases, check_decoder_error);
    let cases = ctx.share(ctx.tier.pick(20_000, 400_000));
    engine::drive(ctx, rep, "chunker-held-chunks", stream_case(8), cases, check_chunker);
    let cases = ctx.share(ctx.tier.pick(20_000, 400_000));
    engine::drive(ctx, rep, "reader-kept-records", stream_case(8), cases, check_reader);
    let cases = ctx.share(ctx.tier.pick(1_500, 100_000));
    engine::drive(ctx, rep, "reader-kept-records-long", stream_case(60), cases, check_reader);
    let cases = ctx.share(ctx.tier.pick(6_000, 200_000));
    let aligned = (c06::aligned_case_strategy(), proptest::collection::vec(any::<u8>(), 0..6), 0u8..3).prop_map(|(c, drop_order, keep_every)| StreamCase {
        stream: c.stream,
        delivery: c.delivery,
        drop_order,
        keep_every,
        nudges: c.nudges,
    });
    engine::drive(ctx, rep, "reader-block-aligned-tails", aligned, cases, check_reader);
    // A few large records (more than an HCOBS chunk, an I/O block, an arena chunk), kept or held.
    let large = || {
        (c06::large_case_strategy(), proptest::collection::vec(any::<u8>(), 0..6), 0u8..3).prop_map(|(c, drop_order, keep_every)| StreamCase {
            stream: c.stream,
            delivery: c.delivery,
            drop_order,
            keep_every,
            nudges: c.nudges,
        })
    };
    let cases = ctx.share(ctx.tier.pick(500, 20_000));
    engine::drive(ctx, rep, "reader-kept-records-large", large(), cases, check_reader);
    let cases = ctx.share(ctx.tier.pick(240, 10_000));
    engine::drive(ctx, rep, "chunker-held-chunks-large", large(), cases, check_chunker);
}

fn replay(_ctx: &Ctx, group: &str, case: &Value) -> CaseResult {
    match group {
        "codec-anchored" | "codec-anchored-large" => check_codec(&parse_case::<CodecCase>(case)?),
        "decoder-errors" => check_decoder_error(&parse_case::<DecErrCase>(case)?),
        "chunker-held-chunks" | "chunker-held-chunks-large" => check_chunker(&parse_case::<StreamCase>(case)?),
        "reader-kept-records" | "reader-kept-records-long" | "reader-kept-records-large" | "reader-block-aligned-tails" => check_reader(&parse_case::<StreamCase>(case)?),
        "iovec-thread-handoff" => {
            let h = parse_case::<History>(case)?;
            iovec_sm::with_thread_handoff(|| check_history(&h))
        }
        _ => check_history(&parse_case::<History>(case)?),
    }
}

pub fn def() -> PropDef {
    PropDef {
        id: "C05",
        rule: "All groups run single-threaded with the owning_iovec verif hook: a registry of live arena chunks, and quarantine (a released chunk's storage is poisoned with 0xFC and kept mapped until the case ends, so a stale slice can neither alias a newer chunk nor still hold its bytes). iovec-histories: C03's interpreter with a clone / take / drop / arena-swap / held-AnchoredSlice heavy mix (split_at, skip_prefix, drop_suffix, clone, take, drop, push into an iovec); after every operation every slice reachable through any live iovec's read side and every held AnchoredSlice must lie wholly inside the caller-owned pool or wholly inside one live chunk, never intersect a released chunk, hold the model's bytes; owned slices of one iovec and results of distinct read_n calls must be pairwise disjoint (except where the harness itself pushed two clones of one AnchoredSlice). iovec-thread-handoff: the same histories with every third operation and every other drop executed on a fresh thread, strictly one thread at a time (the types are Send). codec-anchored: Encoder and Decoder fed mostly through read_n + encode_anchored / decode_anchored and drained partially after every call; every consumable slice is address- and content-checked against the reference output. decoder-errors: a Decoder is fed (all input methods; arena-read pieces from its own arena or from a separate one) a valid encoding whose k-th chunk header is overwritten with 253..255; after the error the separate arena is dropped and the decoder's arena is flushed / swapped for a fresh one / taken with take_iovec, and everything still reachable must be live and a prefix of the payload. chunker-held-chunks: every Data chunk of a StreamChunker run is held to the end and re-verified after every pump, after flush_cache and after dropping the arena, then released in a generated order. reader-kept-records: returned records are address- and content-checked and clones of records are kept across later next_record_bytes calls and after dropping the reader. The -large variants of the chunker and reader groups use a few records of up to 140000 bytes (sometimes 0.5..1.3 MB: more than an I/O block and than the arena's largest chunk). Non-trivial: a chunk was released during the case while other iovecs / anchors / held chunks were still alive, or an anchored push was partially consumed, or (streams) >= 3 chunks held / a record clone kept across >= 1 later record. Distinct: hash of the serialised case.",
        assumptions: &[
            "lifetime misuse that needs `unsafe` on the caller's side is out of scope (the harness pushes an anchor right after its slice, as Encoder::encode_anchored does)",
            "allocator address reuse is removed by quarantine rather than explored",
            "hook: owning_iovec/verif-hooks",
        ],
        exhaustive_note: None,
        shards: |_t: Tier| 16,
        run,
        replay,
    }
}
