//! C17 — Arena reads return exactly what the reader delivered, under any I/O faults.
use std::io::ErrorKind;
use std::num::NonZeroUsize;

use hcobs::{Decoder, Encoder};
use owning_iovec::ByteArena;
use proptest::prelude::*;
use serde::{Deserialize, Serialize};
use serde_json::{json, Value};

use super::stream_in::prepare_arena;
use super::{parse_case, PropDef};
use crate::engine::bytespec::show;
use crate::engine::{self, CaseResult, Ctx, Fail, Outcome, Report, Tier};
use crate::refimpl::hcobs_ref::{self, LIMIT_FIRST, LIMIT_LATER};

#[derive(Clone, Copy, Debug, PartialEq, Eq, Hash, Serialize, Deserialize)]
pub enum Step {
    /// Deliver up to this many bytes (at least one; fewer if less is asked or left).
    Deliver(u32),
    /// Deliver everything that is asked.
    DeliverAll,
    Interrupted,
    /// `Ok(0)`.
    Eof,
    /// A non-retryable error of this kind (index into [`KINDS`]).
    Error(u8),
}

pub const KINDS: [ErrorKind; 4] = [ErrorKind::Other, ErrorKind::TimedOut, ErrorKind::WouldBlock, ErrorKind::UnexpectedEof];
/// Errors that come from the operating system (they carry an errno, no payload): EAGAIN, ETIMEDOUT, EIO, EPIPE.
pub const OS_ERRORS: [i32; 4] = [11, 110, 5, 32];

/// Hard errors whose payload is itself an `io::Error` of kind Interrupted (an adapter wrapping what it got from below):
/// what counts is the kind of the error the reader returned, not of anything inside it.
pub const WRAPPING: [ErrorKind; 4] = [ErrorKind::Other, ErrorKind::TimedOut, ErrorKind::Other, ErrorKind::UnexpectedEof];

/// The error `Step::Error(k)` stands for: a custom one of `KINDS[k]` for k < 4, an OS one for k < 8, otherwise a
/// custom one of `WRAPPING[k - 8]` around an Interrupted `io::Error` (custom, bare kind, EINTR from the OS, custom).
pub fn scripted_error(k: u8, msg: String) -> std::io::Error {
    let k = k as usize % (KINDS.len() + OS_ERRORS.len() + WRAPPING.len());
    if k < KINDS.len() {
        std::io::Error::new(KINDS[k], msg)
    } else if k < KINDS.len() + OS_ERRORS.len() {
        std::io::Error::from_raw_os_error(OS_ERRORS[k - KINDS.len()])
    } else {
        let w = k - KINDS.len() - OS_ERRORS.len();
        let inner = match w {
            1 => std::io::Error::from(ErrorKind::Interrupted),
            2 => std::io::Error::from_raw_os_error(4),
            _ => std::io::Error::new(ErrorKind::Interrupted, msg),
        };
        std::io::Error::new(WRAPPING[w], inner)
    }
}

/// A copy of an error that keeps what can be observed of it: errno, payload or not, message.
fn copy_err(e: &std::io::Error) -> std::io::Error {
    match (e.raw_os_error(), e.get_ref().is_some()) {
        (Some(code), _) => std::io::Error::from_raw_os_error(code),
        (None, true) => std::io::Error::new(e.kind(), e.to_string()),
        (None, false) => e.kind().into(),
    }
}

pub fn scripted_kind(k: u8) -> ErrorKind {
    scripted_error(k, String::new()).kind()
}

/// A reader that follows a fault script and records what it was asked.
pub struct FaultReader<'a> {
    pub data: &'a [u8],
    pub pos: usize,
    pub script: &'a [Step],
    pub step: usize,
    /// (bytes offered by the caller, bytes delivered) for each call.
    pub log: Vec<(usize, Option<usize>)>,
    /// Message of the last error this reader returned (every error it makes is unique).
    pub last_error: Option<String>,
    pub last_raw: Option<i32>,
}

impl<'a> FaultReader<'a> {
    pub fn new(data: &'a [u8], script: &'a [Step]) -> Self {
        FaultReader {
            data,
            pos: 0,
            script,
            step: 0,
            log: vec![],
            last_error: None,
            last_raw: None,
        }
    }
}

impl std::io::Read for FaultReader<'_> {
    fn read(&mut self, buf: &mut [u8]) -> std::io::Result<usize> {
        // After the script: end of file.
        let step = self.script.get(self.step).copied().unwrap_or(Step::Eof);
        self.step += 1;
        let left = self.data.len() - self.pos;
        let n = match step {
            Step::Interrupted => {
                self.log.push((buf.len(), None));
                let msg = format!("scripted EINTR (call #{})", self.log.len());
                // An interruption is an error whose own kind is Interrupted, whatever it is made of: built by the
                // caller, EINTR from the operating system, or wrapped around some other error.
                let e = match (self.log.len() + self.data.len()) % 4 {
                    1 => std::io::Error::from_raw_os_error(4),
                    2 => std::io::Error::new(ErrorKind::Interrupted, std::io::Error::new(ErrorKind::Other, msg)),
                    _ => std::io::Error::new(ErrorKind::Interrupted, msg),
                };
                self.last_error = Some(e.to_string());
                self.last_raw = e.raw_os_error();
                return Err(e);
            }
            Step::Error(k) => {
                self.log.push((buf.len(), None));
                let e = scripted_error(k, format!("scripted failure (call #{})", self.log.len()));
                self.last_error = Some(e.to_string());
                self.last_raw = e.raw_os_error();
                return Err(e);
            }
            Step::Eof => 0,
            Step::Deliver(k) => (k as usize).max(1).min(buf.len()).min(left),
            Step::DeliverAll => buf.len().min(left),
        };
        buf[..n].copy_from_slice(&self.data[self.pos..self.pos + n]);
        self.pos += n;
        self.log.push((buf.len(), Some(n)));
        Ok(n)
    }
}

/// What the contract says one `read_n(count, attempts)` call does with `script`.
pub struct Expected {
    pub calls: usize,
    /// Bytes offered in each call.
    pub offered: Vec<usize>,
    pub delivered: usize,
    pub result: Result<(), ErrorKind>,
}

pub fn reference(script: &[Step], data_left: usize, count: usize, attempts: usize) -> Expected {
    let mut e = Expected {
        calls: 0,
        offered: vec![],
        delivered: 0,
        result: Ok(()),
    };
    if count == 0 {
        return e;
    }
    let mut last_err: Option<ErrorKind> = None;
    let mut left = data_left;
    for i in 0..attempts {
        let offered = count - e.delivered;
        e.calls += 1;
        e.offered.push(offered);
        let step = script.get(i).copied().unwrap_or(Step::Eof);
        match step {
            Step::Interrupted => last_err = Some(ErrorKind::Interrupted),
            Step::Error(k) => {
                last_err = Some(scripted_kind(k));
                break;
            }
            Step::Eof => {
                last_err = None;
                break;
            }
            Step::Deliver(_) | Step::DeliverAll => {
                let n = match step {
                    Step::Deliver(k) => (k as usize).max(1).min(offered).min(left),
                    _ => offered.min(left),
                };
                if n == 0 {
                    // Nothing left in the source: this is an end of file.
                    last_err = None;
                    break;
                }
                e.delivered += n;
                left -= n;
            }
        }
        if e.delivered == count {
            break;
        }
    }
    if e.delivered == 0 {
        if let Some(k) = last_err {
            e.result = Err(k);
        }
    }
    e
}

#[derive(Clone, Copy, Debug, PartialEq, Eq, Hash, Serialize, Deserialize)]
pub enum Via {
    Arena,
    EncoderReadN,
    DecoderReadN,
}

#[derive(Clone, Debug, PartialEq, Eq, Hash, Serialize, Deserialize)]
pub struct Case {
    pub via: Via,
    pub script: Vec<Step>,
    pub count: u32,
    pub attempts: u8,
    /// See `stream_in::prepare_arena`.
    pub arena_prep: u8,
    /// Bytes available in the source.
    pub source_len: u32,
}

fn source(len: usize) -> Vec<u8> {
    (0..len).map(|i| (i as u32).wrapping_mul(2654435761).to_le_bytes()[1] | 1).collect()
}

fn compare(what: &str, case_desc: &str, reader: &FaultReader<'_>, want: &Expected, got: &std::io::Result<Vec<u8>>, data: &[u8], start: usize) -> Result<(), Fail> {
    if reader.log.len() != want.calls {
        return Err(Fail::new(
            format!("{what}:call-count"),
            format!("{case_desc}: the reader was called {} times, the contract allows exactly {}", reader.log.len(), want.calls),
        ));
    }
    for (i, ((offered, _), want_offered)) in reader.log.iter().zip(want.offered.iter()).enumerate() {
        if offered != want_offered {
            return Err(Fail::new(
                format!("{what}:offered"),
                format!("{case_desc}: call #{i} offered a buffer of {offered} bytes, expected count - delivered = {want_offered}"),
            ));
        }
    }
    match (got, &want.result) {
        (Ok(bytes), Ok(())) => {
            let want_bytes = &data[start..start + want.delivered];
            if bytes[..] != *want_bytes {
                return Err(Fail::new(
                    format!("{what}:content"),
                    format!("{case_desc}: returned {} ({} bytes), the reader delivered {} ({} bytes)", show(bytes), bytes.len(), show(want_bytes), want_bytes.len()),
                ));
            }
        }
        (Err(e), Err(kind)) => {
            if e.kind() != *kind {
                return Err(Fail::new(format!("{what}:error-kind"), format!("{case_desc}: failed with {:?}, the last error was {kind:?}", e.kind())));
            }
            // "Fails with the last error": the reader's own error object, not a lookalike of the same kind.
            if let Some(last) = &reader.last_error {
                if e.to_string() != *last || e.raw_os_error() != reader.last_raw || (reader.last_raw.is_none() && e.get_ref().is_none()) {
                    return Err(Fail::new(
                        format!("{what}:error-identity"),
                        format!("{case_desc}: failed with \"{e}\" (payload kept: {}), the reader's last error was \"{last}\"", e.get_ref().is_some()),
                    ));
                }
            }
        }
        (Ok(bytes), Err(kind)) => {
            return Err(Fail::new(format!("{what}:ok-instead-of-error"), format!("{case_desc}: returned Ok({} bytes) although nothing was delivered and the last error was {kind:?}", bytes.len())));
        }
        (Err(e), Ok(())) => {
            return Err(Fail::new(
                format!("{what}:error-instead-of-ok"),
                format!("{case_desc}: failed with {e} although {} bytes were delivered (or end of file came first)", want.delivered),
            ));
        }
    }
    Ok(())
}

fn classify(script: &[Step], want: &Expected, count: usize) -> Outcome {
    let kinds: std::collections::BTreeSet<u8> = script
        .iter()
        .take(want.calls)
        .map(|s| match s {
            Step::Deliver(_) | Step::DeliverAll => 0,
            Step::Interrupted => 1,
            Step::Eof => 2,
            Step::Error(_) => 3,
        })
        .collect();
    let short_or_failed = want.delivered < count;
    Outcome::new(kinds.len() >= 2 && short_or_failed)
        .label_if(want.result.is_err(), "fails")
        .label_if(want.result.is_ok() && want.delivered == 0 && count > 0, "ok_empty_on_eof")
        .label_if(want.delivered > 0 && want.delivered < count, "short_read")
        .label_if(want.delivered == count && count > 0, "full_read")
        .label_if(kinds.contains(&3), "hard_error_seen")
        .label_if(kinds.contains(&1), "eintr_seen")
}

pub fn check_case(case: &Case) -> CaseResult {
    let data = source(case.source_len as usize);
    let count = case.count as usize;
    let attempts = (case.attempts as usize).max(1);
    let want = reference(&case.script, data.len(), count, attempts);
    let desc = format!("read_n(count {count}, attempts {attempts}) via {:?}, script {:?}, {} source bytes, arena prep {}", case.via, case.script, data.len(), case.arena_prep);
    let mut reader = FaultReader::new(&data, &case.script);
    let n = NonZeroUsize::new(attempts).unwrap();
    // A second read right afterwards must not disturb the first slice.
    let second_data = [0xA5u8; 5];
    match case.via {
        Via::Arena => {
            let mut arena = ByteArena::new();
            prepare_arena(&mut arena, case.arena_prep);
            let first = arena.read_n(&mut reader, count, n);
            let got = first.as_ref().map(|s| s.slice().to_vec()).map_err(copy_err);
            compare("arena", &desc, &reader, &want, &got, &data, 0)?;
            let mut rd = &second_data[..];
            let second = arena.read_n(&mut rd, 5, NonZeroUsize::new(1).unwrap()).map_err(|e| Fail::new("arena:second-read", e.to_string()))?;
            if second.slice() != second_data {
                return Err(Fail::new("arena:second-read", "a plain read right after the scripted one returned wrong bytes"));
            }
            if let Ok(first) = &first {
                if first.slice() != &data[..want.delivered] {
                    return Err(Fail::new("arena:overwritten", format!("{desc}: the returned slice changed when the next read was made")));
                }
                let a = first.slice().as_ptr_range();
                let b = second.slice().as_ptr_range();
                if !first.slice().is_empty() && a.start < b.end && b.start < a.end {
                    return Err(Fail::new("arena:overlap", format!("{desc}: the next allocation overlaps the returned slice")));
                }
            }
        }
        Via::EncoderReadN => {
            let mut enc = Encoder::new();
            prepare_arena(enc.consumer().arena(), case.arena_prep);
            let first = enc.read_n(&mut reader, count, n);
            let got = first.as_ref().map(|s| s.slice().to_vec()).map_err(copy_err);
            compare("encoder.read_n", &desc, &reader, &want, &got, &data, 0)?;
            // Reading alone must not have produced any output.
            let out = enc.finish().flatten().map_err(|_| Fail::new("encoder:finish-pending", "placeholder pending"))?;
            if out != [0u8] {
                return Err(Fail::new("encoder.read_n:output-affected", format!("{desc}: read_n alone changed the encoder's output to {}", show(&out))));
            }
        }
        Via::DecoderReadN => {
            let mut dec = Decoder::new();
            prepare_arena(dec.consumer().arena(), case.arena_prep);
            let first = dec.read_n(&mut reader, count, n);
            let got = first.as_ref().map(|s| s.slice().to_vec()).map_err(copy_err);
            compare("decoder.read_n", &desc, &reader, &want, &got, &data, 0)?;
            if dec.consumer().total_size() != 0 {
                return Err(Fail::new("decoder.read_n:output-affected", format!("{desc}: read_n alone produced decoder output")));
            }
        }
    }
    Ok(classify(&case.script, &want, count))
}

/// Several `encode_read` / `decode_read` calls, each with its own fault script.
#[derive(Clone, Debug, PartialEq, Eq, Hash, Serialize, Deserialize)]
pub struct CodecCase {
    pub decode: bool,
    /// Plain message (for `decode`: its canonical encoding is what the readers deliver).
    pub payload: crate::engine::bytespec::ByteSpec,
    /// (script, count, attempts) per call.
    pub calls: Vec<(Vec<Step>, u32, u8)>,
    pub arena_prep: u8,
}

pub fn check_codec_case(case: &CodecCase) -> CaseResult {
    let plain = case.payload.bytes();
    let source_bytes = if case.decode { hcobs_ref::encode(&plain, LIMIT_FIRST, LIMIT_LATER) } else { plain.clone() };
    let mut pos = 0usize;
    let mut any_nontrivial = false;
    let mut outcome_labels = Outcome::trivial();
    let mut enc = Encoder::new();
    let mut dec = Decoder::new();
    if case.decode {
        prepare_arena(dec.consumer().arena(), case.arena_prep);
    } else {
        prepare_arena(enc.consumer().arena(), case.arena_prep);
    }
    let mut decoder_failed: Option<String> = None;
    for (i, (script, count, attempts)) in case.calls.iter().enumerate() {
        let count = *count as usize;
        let attempts = (*attempts as usize).max(1);
        let left = &source_bytes[pos..];
        let want = reference(script, left.len(), count, attempts);
        let desc = format!("{} call #{i} (count {count}, attempts {attempts}), script {script:?}", if case.decode { "decode_read" } else { "encode_read" });
        let mut reader = FaultReader::new(left, script);
        let n = NonZeroUsize::new(attempts).unwrap();
        let r = if case.decode { dec.decode_read(&mut reader, count, n) } else { enc.encode_read(&mut reader, count, n) };
        // Translate into the shape `compare` expects.
        let delivered = reader.pos;
        let got: std::io::Result<Vec<u8>> = match r {
            Ok(k) => {
                if k != delivered {
                    return Err(Fail::new("codec_read:count", format!("{desc}: returned {k} but the reader delivered {delivered} bytes")));
                }
                Ok(left[..delivered].to_vec())
            }
            Err(e) if case.decode && e.kind() == ErrorKind::Other && delivered > 0 => {
                // A decoding error: the bytes were read, the stream is invalid from here on.
                decoder_failed = Some(e.to_string());
                Ok(left[..delivered].to_vec())
            }
            // (the error itself, untouched: its identity is compared)
            Err(e) => Err(e),
        };
        compare(if case.decode { "decode_read" } else { "encode_read" }, &desc, &reader, &want, &got, left, 0)?;
        pos += delivered;
        let o = classify(script, &want, count);
        any_nontrivial |= o.nontrivial;
        for l in o.labels {
            if !outcome_labels.labels.contains(&l) {
                outcome_labels.labels.push(l);
            }
        }
        if decoder_failed.is_some() {
            break;
        }
    }
    let delivered_total = &source_bytes[..pos];
    if case.decode {
        let want = hcobs_ref::decode(delivered_total, LIMIT_FIRST, LIMIT_LATER);
        let got = match decoder_failed {
            Some(e) => Err(e),
            None => dec.finish().map_err(|e| e.to_string()).and_then(|io| io.flatten().map_err(|_| "placeholder pending".to_string())),
        };
        match (got, want) {
            (Ok(a), Ok(b)) if a == b => {}
            (Err(_), Err(_)) => {}
            (Ok(a), Ok(b)) => return Err(Fail::new("decode_read:output", format!("decoder output {} differs from the decoding {} of the {} bytes delivered by successful reads", show(&a), show(&b), pos))),
            (Ok(a), Err(r)) => return Err(Fail::new("decode_read:output", format!("decoder accepted ({} bytes) although the bytes delivered by successful reads are malformed ({r:?})", a.len()))),
            (Err(e), Ok(b)) => return Err(Fail::new("decode_read:output", format!("decoder failed ({e}) although the {pos} bytes delivered by successful reads decode to {} bytes", b.len()))),
        }
    } else {
        let out = enc.finish().flatten().map_err(|_| Fail::new("encoder:finish-pending", "placeholder pending"))?;
        let want = hcobs_ref::encode(delivered_total, LIMIT_FIRST, LIMIT_LATER);
        if out != want {
            return Err(Fail::new(
                "encode_read:output",
                super::codec::mismatch(&format!("encoder output differs from the encoding of exactly the {pos} bytes delivered by successful reads"), &out, &want),
            ));
        }
    }
    outcome_labels.nontrivial = any_nontrivial;
    Ok(outcome_labels)
}

fn step() -> impl Strategy<Value = Step> {
    prop_oneof![
        4 => prop_oneof![1u32..4, 1u32..300, 1u32..80_000].prop_map(Step::Deliver),
        2 => Just(Step::DeliverAll),
        3 => Just(Step::Interrupted),
        1 => Just(Step::Eof),
        2 => (0u8..12).prop_map(Step::Error),
    ]
}

fn count() -> impl Strategy<Value = u32> {
    prop_oneof![Just(0u32), Just(1), Just(2), Just(3), Just(7), Just(4096), Just(70_000), 0u32..600]
}

/// Counts around the arena's chunk-size sequence (4 KiB .. 1 MiB) and beyond.
fn big_count() -> impl Strategy<Value = u32> {
    prop_oneof![
        2 => prop_oneof![Just(1u32 << 20), Just((1 << 20) - 1), Just((1 << 20) + 1), Just(1 << 19), Just((1 << 19) + 1), Just(1 << 18), Just(1 << 21)],
        2 => 250_000u32..1_200_000,
        1 => (1u32 << 20) - 5000..(1u32 << 20) + 5000,
        1 => 4000u32..70_000,
        1 => 0u32..300,
    ]
}

/// Several reads in a row on one arena (fresh, or one whose chunks have already grown).
#[derive(Clone, Debug, PartialEq, Eq, Hash, Serialize, Deserialize)]
pub struct SeqCase {
    /// `ensure_capacity` calls made first (they grow the arena's chunk size).
    pub warmup: Vec<u32>,
    /// (count, script, attempts) per read, all on the same arena; the slices are kept alive.
    pub reads: Vec<(u32, Vec<Step>, u8)>,
}

pub fn check_seq_case(case: &SeqCase) -> CaseResult {
    let mut arena = ByteArena::new();
    for w in &case.warmup {
        arena.ensure_capacity(*w as usize);
    }
    let data = source(2_200_000);
    let mut kept: Vec<(owning_iovec::AnchoredSlice, usize, usize)> = vec![];
    let mut pos = 0usize;
    let mut nontrivial = false;
    for (i, (count, script, attempts)) in case.reads.iter().enumerate() {
        let count = *count as usize;
        let attempts = (*attempts as usize).max(1);
        let left = &data[pos.min(data.len())..];
        let want = reference(script, left.len(), count, attempts);
        let desc = format!("read #{i}: read_n(count {count}, attempts {attempts}) after warm-up {:?}, script {script:?}", case.warmup);
        let mut reader = FaultReader::new(left, script);
        let r = arena.read_n(&mut reader, count, NonZeroUsize::new(attempts).unwrap());
        let got = r.as_ref().map(|s| s.slice().to_vec()).map_err(copy_err);
        compare("arena-seq", &desc, &reader, &want, &got, left, 0)?;
        if let Ok(slice) = r {
            kept.push((slice, pos, pos + want.delivered));
        }
        pos += want.delivered;
        nontrivial |= count >= 1 << 19;
        // Earlier slices stay intact and disjoint.
        let mut ranges: Vec<(usize, usize)> = vec![];
        for (k, (s, a, b)) in kept.iter().enumerate() {
            if s.slice() != &data[*a..*b] {
                return Err(Fail::new("arena-seq:overwritten", format!("{desc}: the slice returned by read #{k} changed")));
            }
            if !s.slice().is_empty() {
                let r = s.slice().as_ptr_range();
                ranges.push((r.start as usize, r.end as usize));
            }
        }
        ranges.sort_unstable();
        if ranges.windows(2).any(|w| w[1].0 < w[0].1) {
            return Err(Fail::new("arena-seq:overlap", format!("{desc}: two returned slices overlap")));
        }
    }
    Ok(Outcome::new(nontrivial).label_if(case.warmup.iter().any(|w| *w >= 1 << 19), "large_warmup").label_if(case.reads.len() >= 3, ">=3_reads"))
}

fn seq_case_strategy() -> impl Strategy<Value = SeqCase> {
    (
        proptest::collection::vec(big_count(), 0..3),
        proptest::collection::vec(
            (big_count(), proptest::collection::vec(prop_oneof![3 => Just(Step::DeliverAll), 1 => (1u32..80_000).prop_map(Step::Deliver), 1 => Just(Step::Interrupted)], 0..3), 1u8..4),
            1..5,
        ),
    )
        .prop_map(|(warmup, reads)| SeqCase { warmup, reads })
}

fn case_strategy() -> impl Strategy<Value = Case> {
    (
        prop_oneof![Just(Via::Arena), Just(Via::EncoderReadN), Just(Via::DecoderReadN)],
        proptest::collection::vec(step(), 0..9),
        count(),
        1u8..7,
        prop_oneof![3 => Just(0u8), 1 => Just(1u8), 3 => 2u8..6],
        prop_oneof![Just(0u32), 0u32..10, 60_000u32..80_000],
    )
        .prop_map(|(via, script, count, attempts, arena_prep, source_len)| Case {
            via,
            script,
            count,
            attempts,
            arena_prep,
            source_len,
        })
}

fn codec_case_strategy() -> impl Strategy<Value = CodecCase> {
    (
        any::<bool>(),
        crate::engine::bytespec::hcobs_payload(false),
        proptest::collection::vec((proptest::collection::vec(step(), 0..6), prop_oneof![0u32..8, 0u32..600, Just(4096u32)], 1u8..6), 1..8),
        prop_oneof![3 => Just(0u8), 1 => Just(1u8), 3 => 2u8..6],
    )
        .prop_map(|(decode, payload, calls, arena_prep)| CodecCase {
            decode,
            payload,
            calls,
            arena_prep,
        })
}

/// All scripts up to length 4 over a 7-step alphabet x counts x attempts x arena states x entry point.
fn exhaustive(ctx: &Ctx, rep: &mut Report, max_len: usize) {
    let alphabet = [Step::Deliver(1), Step::Deliver(2), Step::DeliverAll, Step::Interrupted, Step::Eof, Step::Error(0), Step::Error(4)];
    let mut scripts: Vec<Vec<Step>> = vec![vec![]];
    let mut frontier: Vec<Vec<Step>> = vec![vec![]];
    for _ in 0..max_len {
        let mut next = vec![];
        for s in &frontier {
            for a in alphabet {
                let mut t = s.clone();
                t.push(a);
                next.push(t);
            }
        }
        scripts.extend(next.iter().cloned());
        frontier = next;
    }
    let counts = [0u32, 1, 2, 3, 7, 4096, 70_000];
    let group = "exhaustive-scripts";
    engine::set_group(group);
    let mut n = 0u64;
    let mut nt = 0u64;
    for (index, script) in scripts.iter().enumerate() {
        if !ctx.owns(index as u64) {
            continue;
        }
        for &count in &counts {
            for attempts in 1u8..=6 {
                for (via, arena_prep) in [(Via::Arena, 0u8), (Via::Arena, 1), (Via::Arena, 3), (Via::EncoderReadN, 0), (Via::DecoderReadN, 4)] {
                    let case = Case {
                        via,
                        script: script.clone(),
                        count,
                        attempts,
                        arena_prep,
                        source_len: 5,
                    };
                    match engine::guarded(&case, &check_case) {
                        Ok(o) => {
                            n += 1;
                            nt += o.nontrivial as u64;
                        }
                        Err(fail) => {
                            rep.evaluations += n + 1;
                            rep.add_failure(ctx, group, &case, fail);
                            return;
                        }
                    }
                }
            }
        }
    }
    rep.add_enumerated(group, n, nt);
    rep.sub_set(group, "max_script_len", json!(max_len));
    rep.sub_set(group, "alphabet", json!(format!("{alphabet:?}")));
    rep.sub_set(group, "counts", json!(counts));
    rep.sub_set(group, "attempts", json!("1..=6"));
    rep.sub_set(group, "exhaustive", json!(true));
    rep.add_sample(group, json!({"via": "Arena", "script": ["Interrupted", "Deliver(2)", "Error(0)"], "count": 7, "attempts": 3, "arena_prep": 3, "source_len": 5}));
}

pub fn run(ctx: &Ctx, rep: &mut Report) {
    exhaustive(ctx, rep, ctx.tier.pick(4, 5));
    let cases = ctx.share(ctx.tier.pick(400_000, 8_000_000));
    engine::drive(ctx, rep, "random", case_strategy(), cases, check_case);
    let cases = ctx.share(ctx.tier.pick(160_000, 2_400_000));
    engine::drive(ctx, rep, "codec-read", codec_case_strategy(), cases, check_codec_case);
    let cases = ctx.share(ctx.tier.pick(12_000, 600_000));
    engine::drive(ctx, rep, "large-read-sequences", seq_case_strategy(), cases, check_seq_case);
    let cases = ctx.share(ctx.tier.pick(600, 20_000));
    {
        let _ballast = super::iovec_sm::Ballast::new(super::iovec_sm::BALLAST_MIB);
        engine::drive(ctx, rep, "large-read-sequences-with-ballast", seq_case_strategy(), cases, check_seq_case);
    }
}

fn replay(_ctx: &Ctx, group: &str, case: &Value) -> CaseResult {
    if group == "codec-read" {
        check_codec_case(&parse_case::<CodecCase>(case)?)
    } else if group == "large-read-sequences-with-ballast" {
        super::iovec_sm::check_with_ballast(&parse_case::<SeqCase>(case)?, check_seq_case)
    } else if group == "large-read-sequences" {
        check_seq_case(&parse_case::<SeqCase>(case)?)
    } else {
        check_case(&parse_case::<Case>(case)?)
    }
}

pub fn def() -> PropDef {
    PropDef {
        id: "C17",
        rule: "A case is a reader fault script over {deliver k bytes, deliver all, Interrupted, end of file, hard error of four kinds, built by the caller (with a message), coming from the operating system (EAGAIN, ETIMEDOUT, EIO, EPIPE: an errno, no payload) or built by the caller around an io::Error of kind Interrupted; an Interrupted step is a caller-built error, EINTR from the operating system or an Interrupted error wrapped around another one, in turn} (end of file after the script), a count from {0,1,2,3,7,4096,70000,0..600}, an attempt limit 1..6, an arena state (fresh, pre-sized, 0..3 bytes left in the current chunk) and an entry point (ByteArena::read_n, Encoder::read_n, Decoder::read_n); codec-read cases are sequences of encode_read / decode_read calls each with its own script; large-read-sequences are 1..4 reads in a row on one arena, optionally warmed up with ensure_capacity calls, with counts around the arena's chunk sizes (256 KiB .. 2 MiB, exactly 2^19 / 2^20 and +-1), all returned slices kept, compared and checked for overlap. The reader records the buffer size of every call. Oracle: a reference loop written from the documentation predicts the number of calls (<= attempts), the size offered in each call (count - delivered so far), where it stops (end of file, first non-interrupt error, count reached), the returned bytes and Ok/Err (Err with the last error's kind iff nothing was delivered and end of file did not come first); count 0 means no call and an empty slice; a following read does not overlap or change the returned slice; read_n alone leaves the codec output untouched and after encode_read / decode_read calls the final output is the reference encoding / decoding of exactly the delivered bytes. exhaustive-scripts enumerates all scripts up to length 4 (5) over 7 steps x 7 counts x 6 attempt limits x 5 (entry point, arena state) pairs. Non-trivial: the executed part of the script mixes >= 2 kinds of step and the read is short or failed. Distinct: hash of the serialised case / by enumeration.",
        assumptions: &["readers never deliver more than the buffer they are given", "reference codec of C07 for the codec-read outputs"],
        exhaustive_note: Some("exhaustive-scripts: complete enumeration"),
        shards: |t: Tier| t.pick(8, 16),
        run,
        replay,
    }
}
