//! C07 — HCOBS wire format: canonical encoder, decoder accepts exactly the format.
use proptest::prelude::*;
use serde::{Deserialize, Serialize};
use serde_json::Value;

use super::codec::{self, CodecCase, Side};
use super::hcobs_small::{self, Focus, SmallDec, SmallEnc};
use super::{parse_case, PropDef};
use crate::engine::bytespec::{self, show, ByteSpec, Cut, Hex};
use crate::engine::{self, CaseResult, Ctx, Fail, Outcome, Report, Tier};
use crate::refimpl::hcobs_ref::{self, LIMIT_FIRST, LIMIT_LATER};

/// Encoder half: output is byte for byte the canonical encoding.
pub fn check_encoder(case: &CodecCase) -> CaseResult {
    let plain = case.payload.bytes();
    let pre = &case.pre.0;
    let enc = codec::run_encoder(&plain, pre, &case.enc, false)?;
    let out = enc.output.get(pre.len()..).unwrap_or(&[]);
    let want = hcobs_ref::encode(&plain, LIMIT_FIRST, LIMIT_LATER);
    if out != &want[..] {
        return Err(Fail::new("encoder-not-canonical", codec::mismatch("encoder output differs from the canonical encoding", out, &want)));
    }
    let chunks = codec::encoded_interesting(&want).len();
    Ok(Outcome::new(chunks >= 2)
        .label_if(chunks >= 3, "three_or_more_chunks")
        .label_if(plain.len() >= 252 + 64008, "payload>=64260")
        .label_if(enc.obs.pieces >= 2, "multiple_calls"))
}

/// Both codecs started from a caller's iovec that already holds bytes *and* one of the
/// caller's own placeholders, still pending (a length prefix to be backfilled once the size is
/// known): the codec appends behind it, `finish` hands the iovec back, the caller backfills.
pub fn check_prefilled(case: &CodecCase) -> CaseResult {
    use hcobs::{Decoder, Encoder};
    use owning_iovec::OwningIovec;
    let plain = case.payload.bytes();
    let wire = hcobs_ref::encode(&plain, LIMIT_FIRST, LIMIT_LATER);
    let pre = &case.pre.0;
    let patch_len = 1 + plain.len() % 5;
    let fill: Vec<u8> = (0..patch_len).map(|i| 0xB0 + i as u8).collect();
    let cuts_e = crate::engine::bytespec::resolve_cuts(&case.enc.cuts, plain.len(), &codec::plain_interesting(&plain));
    let cuts_d = crate::engine::bytespec::resolve_cuts(&case.dec.cuts, wire.len(), &codec::encoded_interesting(&wire));

    // Encoder.
    let mut iovec = OwningIovec::new();
    iovec.push_copy(pre);
    let backref = iovec.register_patch(&vec![0u8; patch_len]);
    let mut encoder = Encoder::new_from_iovec(iovec);
    for (i, piece) in crate::engine::bytespec::split_at_cuts(&plain, &cuts_e).into_iter().enumerate() {
        if i % 2 == 0 {
            encoder.encode(piece);
        } else {
            encoder.encode_copy(piece);
        }
        let visible: usize = encoder.consumer().stable_prefix().iter().map(|s| s.len()).sum();
        if visible > pre.len() {
            return Err(Fail::new("prefilled:visible-behind-placeholder", "bytes behind the caller's pending placeholder are consumable".to_string()));
        }
    }
    let mut out = encoder.finish();
    out.backfill_or_panic(backref, &fill);
    let got = out.flatten().map_err(|_| Fail::new("prefilled:pending", "a placeholder is still pending after the caller's backfill".to_string()))?;
    let want: Vec<u8> = [&pre[..], &fill[..], &wire[..]].concat();
    if got != want {
        return Err(Fail::new("prefilled:encoder", codec::mismatch("encoder started from an iovec with a pending placeholder", &got, &want)));
    }

    // Decoder.
    let mut iovec = OwningIovec::new();
    iovec.push_copy(pre);
    let backref = iovec.register_patch(&vec![0u8; patch_len]);
    let mut decoder = Decoder::new_from_iovec(iovec);
    for (i, piece) in crate::engine::bytespec::split_at_cuts(&wire, &cuts_d).into_iter().enumerate() {
        let r = if i % 2 == 0 { decoder.decode(piece) } else { decoder.decode_copy(piece) };
        r.map_err(|e| Fail::new("prefilled:decoder-rejects", format!("decoder started from an iovec with a pending placeholder rejected a canonical encoding: {e}")))?;
    }
    let mut out = decoder
        .finish()
        .map_err(|e| Fail::new("prefilled:decoder-rejects", format!("finish() rejected a canonical encoding: {e}")))?;
    out.backfill_or_panic(backref, &fill);
    let got = out.flatten().map_err(|_| Fail::new("prefilled:pending", "a placeholder is still pending after the caller's backfill".to_string()))?;
    let want: Vec<u8> = [&pre[..], &fill[..], &plain[..]].concat();
    if got != want {
        return Err(Fail::new("prefilled:decoder", codec::mismatch("decoder started from an iovec with a pending placeholder", &got, &want)));
    }
    Ok(Outcome::new(plain.len() >= 252 || !pre.is_empty()).label_if(!pre.is_empty(), "bytes_before_the_placeholder"))
}

/// One encoder's arena handed over to the next (`take_arena`, then
/// `Encoder::new_from_iovec(OwningIovec::new_from_arena(arena))`) while the first one's output is
/// still alive, with a generated number of bytes (mostly none) left in the arena's current chunk at
/// the hand-over: both outputs must be the reference encodings, also after the second encoder wrote.
pub fn check_handover(case: &CodecCase) -> CaseResult {
    use hcobs::Encoder;
    use owning_iovec::OwningIovec;
    let p = case.payload.bytes();
    let q: Vec<u8> = p.iter().rev().map(|b| b.wrapping_add(3)).chain([0x68, 0xFE, 0xFD, 0x69]).collect();
    let mut first = Encoder::new();
    let cuts = crate::engine::bytespec::resolve_cuts(&case.enc.cuts, p.len(), &codec::plain_interesting(&p));
    for (i, piece) in crate::engine::bytespec::split_at_cuts(&p, &cuts).into_iter().enumerate() {
        if i % 2 == 0 {
            first.encode_copy(piece);
        } else {
            first.encode(piece);
        }
    }
    let mut out1 = first.finish();
    let leave = match case.pre.0.len() % 4 {
        0 | 1 => 0,
        2 => 1,
        _ => case.dec.cuts.len() * 7,
    };
    codec::leave_remaining(out1.arena(), leave);
    let arena = out1.consumer().take_arena();
    let mut second = Encoder::new_from_iovec(OwningIovec::new_from_arena(arena));
    second.encode_copy(&q);
    let got2 = second.finish().flatten().map_err(|_| Fail::new("handover:pending", "placeholder pending after finish".to_string()))?;
    let got1 = out1.flatten().map_err(|_| Fail::new("handover:pending", "placeholder pending after finish".to_string()))?;
    let want1 = hcobs_ref::encode(&p, LIMIT_FIRST, LIMIT_LATER);
    let want2 = hcobs_ref::encode(&q, LIMIT_FIRST, LIMIT_LATER);
    if got1 != want1 {
        return Err(Fail::new("handover:first-output", codec::mismatch(&format!("the first encoder's output, read after its arena (with {leave} bytes left in the chunk) went to a second encoder"), &got1, &want1)));
    }
    if got2 != want2 {
        return Err(Fail::new("handover:second-output", codec::mismatch("the second encoder's output", &got2, &want2)));
    }
    Ok(Outcome::new(leave == 0 && !p.is_empty()).label_if(leave == 0, "chunk_exactly_full_at_the_hand-over"))
}

/// The input block is read once into an arena which then also backs the encoder's output
/// (`Encoder::new_from_iovec(OwningIovec::new_from_arena(arena))`); the pieces encoded are
/// borrowed *windows* of that block - in any order, overlapping, the same one twice - so the
/// encoder is handed slices that live in its own arena's current chunk.
pub fn check_own_arena_views(case: &CodecCase) -> CaseResult {
    use hcobs::{Decoder, Encoder};
    use owning_iovec::{ByteArena, OwningIovec};
    let block = case.payload.bytes();
    if block.is_empty() {
        return Ok(Outcome::new(false));
    }
    let mut arena = ByteArena::new();
    let mut src = &block[..];
    let input = arena
        .read_n(&mut src, block.len(), std::num::NonZeroUsize::new(3).unwrap())
        .map_err(|e| Fail::new("read_n:error", e.to_string()))?;
    // Windows from the two feeding plans' cut points: [c0, c2), [c1, c3), ... (overlapping), then the whole block again.
    let mut cuts = crate::engine::bytespec::resolve_cuts(&case.enc.cuts, block.len(), &codec::plain_interesting(&block));
    cuts.extend(crate::engine::bytespec::resolve_cuts(&case.dec.cuts, block.len(), &[]));
    cuts.push(0);
    cuts.push(block.len());
    cuts.sort_unstable();
    cuts.dedup();
    let mut windows: Vec<(usize, usize)> = cuts.windows(3).map(|w| (w[0], w[2])).collect();
    if case.pre.0.len() % 2 == 0 {
        windows.reverse();
    }
    windows.push((0, block.len()));
    windows.truncate(8);
    let mut plain = vec![];
    let mut encoder = Encoder::new_from_iovec(OwningIovec::new_from_arena(arena));
    if !case.pre.0.is_empty() {
        encoder.encode_copy(&case.pre.0);
        plain.extend_from_slice(&case.pre.0);
    }
    for (a, b) in &windows {
        encoder.encode(&input.slice()[*a..*b]);
        plain.extend_from_slice(&block[*a..*b]);
    }
    let got = encoder.finish().flatten().map_err(|_| Fail::new("own-arena:pending", "placeholder pending after finish".to_string()))?;
    let want = hcobs_ref::encode(&plain, LIMIT_FIRST, LIMIT_LATER);
    if got != want {
        return Err(Fail::new("own-arena:encoder", codec::mismatch(&format!("encoder fed {} windows {windows:?} of a block living in its own arena", windows.len()), &got, &want)));
    }
    let mut decoder = Decoder::new();
    decoder.decode_copy(&got).map_err(|e| Fail::new("own-arena:decoder", e.to_string()))?;
    let back = decoder.finish().map_err(|e| Fail::new("own-arena:decoder", e.to_string()))?.flatten().unwrap_or_default();
    if back != plain {
        return Err(Fail::new("own-arena:roundtrip", codec::mismatch("decoding the encoder's output", &back, &plain)));
    }
    drop(input);
    Ok(Outcome::new(windows.len() >= 3).label_if(windows.iter().any(|w| w.1 - w.0 > 64), "window>64"))
}

#[derive(Clone, Debug, PartialEq, Eq, Hash, Serialize, Deserialize)]
pub enum Mutation {
    /// Overwrite byte `byte` (0 or 1) of the `which`-th chunk header.
    Header { which: u8, byte: u8, value: u8 },
    /// Overwrite the byte at a position.
    Set { at: Cut, value: u8 },
    /// Remove `len` bytes at a position.
    Delete { at: Cut, len: u8 },
    /// Insert bytes at a position.
    Insert { at: Cut, bytes: Hex },
    /// Cut the string off at a position.
    Truncate { at: Cut },
    /// Append bytes (e.g. an extra terminator chunk).
    Append { bytes: Hex },
}

#[derive(Clone, Debug, PartialEq, Eq, Hash, Serialize, Deserialize)]
pub struct DecCase {
    /// `Some`: start from the canonical encoding of this payload; `None`: start from nothing.
    pub payload: Option<ByteSpec>,
    pub mutations: Vec<Mutation>,
    pub side: Side,
}

pub fn materialize(case: &DecCase) -> Vec<u8> {
    let mut s = match &case.payload {
        Some(p) => hcobs_ref::encode(&p.bytes(), LIMIT_FIRST, LIMIT_LATER),
        None => vec![],
    };
    for m in &case.mutations {
        let headers = codec::encoded_interesting(&s);
        let pos = |c: &Cut, s: &Vec<u8>| -> usize {
            // resolve_cuts drops 0 and len; here any position in 0..=len is fine.
            match c {
                Cut::Frac(f) => ((*f as usize) * (s.len() + 1)) >> 16,
                Cut::Abs(p) => (*p as usize).min(s.len()),
                Cut::Near { which, delta } => {
                    if headers.is_empty() {
                        0
                    } else {
                        let idx = ((*which as usize) * headers.len()) >> 8;
                        ((headers[idx] + *delta as usize).saturating_sub(2)).min(s.len())
                    }
                }
            }
        };
        match m {
            Mutation::Header { which, byte, value } => {
                if !headers.is_empty() {
                    let idx = ((*which as usize) * headers.len()) >> 8;
                    let p = headers[idx] + if idx == 0 { 0 } else { (*byte as usize) % 2 };
                    if p < s.len() {
                        s[p] = *value;
                    }
                }
            }
            Mutation::Set { at, value } => {
                let p = pos(at, &s);
                if p < s.len() {
                    s[p] = *value;
                }
            }
            Mutation::Delete { at, len } => {
                let p = pos(at, &s);
                let end = (p + *len as usize).min(s.len());
                s.drain(p..end);
            }
            Mutation::Insert { at, bytes } => {
                let p = pos(at, &s);
                s.splice(p..p, bytes.0.iter().copied());
            }
            Mutation::Truncate { at } => {
                let p = pos(at, &s);
                s.truncate(p);
            }
            Mutation::Append { bytes } => s.extend_from_slice(&bytes.0),
        }
    }
    s
}

/// Decoder half: verdict and bytes agree with the reference decoder.
pub fn check_decoder(case: &DecCase) -> CaseResult {
    let stream = materialize(case);
    let got = codec::run_decoder(&stream, &case.side, false)?;
    let want = hcobs_ref::decode(&stream, LIMIT_FIRST, LIMIT_LATER);
    let multi_chunk = codec::encoded_interesting(&stream).len() >= 2;
    let nontrivial = match &want {
        Ok(_) => multi_chunk,
        Err(r) => *r != hcobs_ref::Reject::Empty,
    };
    let mut outcome = Outcome::new(nontrivial).label_if(got.obs.pieces >= 2, "multiple_calls");
    match (&got.result, &want) {
        (Ok(a), Ok(b)) if a == b => outcome = outcome.label("accepted"),
        (Ok(a), Ok(b)) => return Err(Fail::new("decoder-wrong-bytes", codec::mismatch(&format!("stream {} decodes to something else than the format defines", show(&stream)), a, b))),
        (Err(_), Err(r)) => {
            outcome = outcome.label(match r {
                hcobs_ref::Reject::Empty => "rejected:empty",
                hcobs_ref::Reject::BadFirstHeader => "rejected:first-header",
                hcobs_ref::Reject::BadHeaderByte => "rejected:header-byte",
                hcobs_ref::Reject::OversizedChunk => "rejected:oversized",
                hcobs_ref::Reject::TruncatedHeader => "rejected:truncated-header",
                hcobs_ref::Reject::TruncatedChunk => "rejected:truncated-chunk",
                hcobs_ref::Reject::EndsOnFullChunk => "rejected:ends-on-full-chunk",
            })
        }
        (Ok(a), Err(r)) => {
            return Err(Fail::new(
                "decoder-accepts-malformed",
                format!("stream {} ({} bytes) is malformed ({r:?}) but was accepted and decoded to {} bytes", show(&stream), stream.len(), a.len()),
            ))
        }
        (Err(e), Ok(b)) => {
            return Err(Fail::new(
                "decoder-rejects-wellformed",
                format!("stream {} ({} bytes) is well formed (decodes to {} bytes) but was rejected: {e}", show(&stream), stream.len(), b.len()),
            ))
        }
    }
    Ok(outcome)
}

fn mutation() -> impl Strategy<Value = Mutation> {
    let header_value = prop_oneof![3 => 253u8..=255, 2 => 250u8..=252, 2 => 0u8..4, 1 => any::<u8>()];
    prop_oneof![
        4 => (any::<u8>(), 0u8..2, header_value).prop_map(|(which, byte, value)| Mutation::Header { which, byte, value }),
        2 => (bytespec::cut(), any::<u8>()).prop_map(|(at, value)| Mutation::Set { at, value }),
        2 => (bytespec::cut(), 1u8..4).prop_map(|(at, len)| Mutation::Delete { at, len }),
        2 => (bytespec::cut(), proptest::collection::vec(any::<u8>(), 1..4)).prop_map(|(at, b)| Mutation::Insert { at, bytes: Hex(b) }),
        4 => bytespec::cut().prop_map(|at| Mutation::Truncate { at }),
        2 => prop_oneof![
            Just(vec![0u8, 0]),
            Just(vec![0u8]),
            Just(vec![1u8, 0, 0x41]),
            Just(vec![0xFC, 0xFC]),
            Just(vec![0xFD, 0]),
            proptest::collection::vec(any::<u8>(), 1..5)
        ]
        .prop_map(|b| Mutation::Append { bytes: Hex(b) }),
    ]
}

fn dec_case(allow_large: bool) -> impl Strategy<Value = DecCase> {
    prop_oneof![
        // Valid encodings, possibly damaged.
        6 => (bytespec::hcobs_payload(allow_large), proptest::collection::vec(mutation(), 0..3), codec::side(7))
            .prop_map(|(p, mutations, side)| DecCase { payload: Some(p), mutations, side }),
        // A message cut right after a full chunk (no terminating short chunk).
        1 => (0u8..4, codec::side(5)).prop_map(|(k, side)| {
            let (fill, at) = match k {
                0 => (252u32, 253u32),
                1 => (252 + 64_008, 253 + 2 + 64_008),
                2 => (300, 253),
                _ => (252 + 64_008 + 5, 253 + 2 + 64_008),
            };
            DecCase {
                payload: Some(ByteSpec(vec![bytespec::Seg::Fill { byte: 0x41, len: fill }])),
                mutations: vec![Mutation::Truncate { at: Cut::Abs(at) }],
                side,
            }
        }),
        // Short arbitrary strings.
        2 => (proptest::collection::vec(prop_oneof![any::<u8>(), 0u8..4, 250u8..=255], 0..12), codec::side(4))
            .prop_map(|(raw, side)| DecCase { payload: None, mutations: vec![Mutation::Append { bytes: Hex(raw) }], side }),
    ]
}

/// Every truncation of the canonical encodings of a family of boundary payloads.
fn truncation_items(tier: Tier) -> Vec<DecCase> {
    let lens: Vec<u32> = tier.pick(vec![0, 1, 2, 251, 252, 253, 254, 300], vec![0, 1, 2, 3, 250, 251, 252, 253, 254, 255, 300, 505, 506, 600]);
    let mut items = vec![];
    for len in lens {
        for filling in 0..3u8 {
            let spec = match filling {
                0 => ByteSpec(vec![bytespec::Seg::Fill { byte: 0x41, len }]),
                1 => ByteSpec(vec![bytespec::Seg::Noise { seed: len, len, alphabet: 2 }]),
                _ => ByteSpec(vec![bytespec::Seg::Noise { seed: len + 7, len, alphabet: 1 }]),
            };
            let enc_len = hcobs_ref::encode(&spec.bytes(), LIMIT_FIRST, LIMIT_LATER).len();
            for at in 0..=enc_len {
                for split in 0..2 {
                    let side = if split == 0 {
                        Side::default()
                    } else {
                        Side {
                            cuts: vec![Cut::Frac(0x8000), Cut::Abs(1), Cut::Abs(253)],
                            methods: vec![codec::Method::Copy, codec::Method::Borrow],
                            drains: vec![],
                            nudges: vec![],
                        }
                    };
                    items.push(DecCase {
                        payload: Some(spec.clone()),
                        mutations: vec![Mutation::Truncate { at: Cut::Abs(at as u32) }],
                        side,
                    });
                }
            }
        }
    }
    items
}

pub fn run(ctx: &Ctx, rep: &mut Report) {
    hcobs_small::enumerate_enc(ctx, rep, Focus::Canonical, ctx.tier.pick(8, 10));
    hcobs_small::enumerate_dec(ctx, rep, ctx.tier.pick(6, 7));
    engine::enumerate(ctx, rep, "truncate-every-position", truncation_items(ctx.tier).into_iter(), check_decoder);
    let cases = ctx.share(ctx.tier.pick(30_000, 300_000));
    engine::drive(ctx, rep, "encoder", codec::codec_case(false), cases, check_encoder);
    let cases = ctx.share(ctx.tier.pick(3_000, 30_000));
    engine::drive(ctx, rep, "encoder-large", codec::codec_case(true), cases, check_encoder);
    let cases = ctx.share(ctx.tier.pick(8_000, 60_000));
    engine::drive(ctx, rep, "encoder-power-of-two-aligned", codec::aligned_case(), cases, check_encoder);
    let cases = ctx.share(ctx.tier.pick(8_000, 200_000));
    engine::drive(ctx, rep, "prefilled-iovec-with-placeholder", codec::codec_case(false), cases, check_prefilled);
    let cases = ctx.share(ctx.tier.pick(8_000, 200_000));
    engine::drive(ctx, rep, "views-of-a-block-in-its-own-arena", codec::codec_case(false), cases, check_own_arena_views);
    let cases = ctx.share(ctx.tier.pick(8_000, 200_000));
    engine::drive(ctx, rep, "arena-handed-over", codec::codec_case(false), cases, check_handover);
    let cases = ctx.share(ctx.tier.pick(80_000, 600_000));
    engine::drive(ctx, rep, "decoder", dec_case(false), cases, check_decoder);
    let cases = ctx.share(ctx.tier.pick(4_000, 40_000));
    engine::drive(ctx, rep, "decoder-large", dec_case(true), cases, check_decoder);
}

fn replay(_ctx: &Ctx, group: &str, case: &Value) -> CaseResult {
    match group {
        "small-scope-encoder" => hcobs_small::check_small_enc(&parse_case::<SmallEnc>(case)?, Focus::Canonical),
        "small-scope-decoder" => hcobs_small::check_small_dec(&parse_case::<SmallDec>(case)?),
        "prefilled-iovec-with-placeholder" => check_prefilled(&parse_case::<CodecCase>(case)?),
        "views-of-a-block-in-its-own-arena" => check_own_arena_views(&parse_case::<CodecCase>(case)?),
        "arena-handed-over" => check_handover(&parse_case::<CodecCase>(case)?),
        g if g.starts_with("encoder") => check_encoder(&parse_case::<CodecCase>(case)?),
        _ => check_decoder(&parse_case::<DecCase>(case)?),
    }
}

pub fn def() -> PropDef {
    PropDef {
        id: "C07",
        rule: "Encoder groups: C01's case type; oracle: output equals byte for byte an independently written reference encoder (limits 252/64008 and radix 253 are literals in the reference). encoder-power-of-two-aligned: C02's aligned payloads. prefilled-iovec-with-placeholder: both codecs are started with new_from_iovec on an iovec that holds a few bytes and one of the caller's own placeholders, still pending; pieces go in by encode / encode_copy (decode / decode_copy), finish hands the iovec back, the caller backfills, and the whole must be prefix ++ fill ++ reference output. views-of-a-block-in-its-own-arena: the payload is read once into an arena that then backs the encoder (new_from_iovec(new_from_arena(arena))); up to eight borrowed windows of that block - overlapping, in either order, the whole block again - are encoded, and the output must be the reference encoding of their concatenation. arena-handed-over: a finished encoder's arena, with the current chunk exactly full (or 1 / a few bytes left), is taken and given to a second encoder while the first output is still alive; both outputs must be the reference encodings afterwards. Decoder groups: a case is (optional payload whose canonical encoding is the starting string, a list of mutations - overwrite a chunk-header byte with 253..255 / near-limit / small values, set/delete/insert bytes, truncate, append an extra chunk - or a short arbitrary string, and a feeding plan with cuts and input methods); oracle: accept/reject verdict and decoded bytes equal the reference decoder's, no panic. truncate-every-position enumerates every truncation of the encodings of boundary-length payloads. Non-trivial: the string has >= 2 chunks (reaches a two-byte header), or is rejected for a reason other than being empty. Distinct: hash of the serialised case / by enumeration. Small-scope groups: all strings over {FE,FD,00} up to max_len x 4 limit pairs x cuts x methods (encoder), all strings over {00,01,02,03,05,FC,FD,FE} up to max_len with limits 3/5 x cuts x methods (decoder), through the hcobs::verif hook.",
        assumptions: &[
            "the reference codec (refimpl/hcobs_ref.rs) is correct; it is validated against the expected pairs quoted from the crate's unit tests (cargo test in /verif/harness)",
            "decoders are not fed after their first error",
        ],
        exhaustive_note: Some("small-scope-encoder, small-scope-decoder and truncate-every-position: complete enumerations"),
        shards: |t: Tier| t.pick(8, 16),
        run,
        replay,
    }
}
