//! C20 — A cloned or taken OwningIovec is an independent snapshot.
use serde_json::Value;

use super::iovec_sm::{self, History, Mix, Profile};
use super::{parse_case, PropDef};
use crate::engine::{self, CaseResult, Ctx, Outcome, Report, Tier};

const PROFILE: Profile = Profile {
    check_pipe: true,
    check_mem: true,
    check_leak: false,
};

pub fn check_case(h: &History) -> CaseResult {
    let st = iovec_sm::run_history(h, PROFILE)?;
    Ok(Outcome::new(st.split_both_sides_mutated)
        .label_if(st.clones > 0, "clone")
        .label_if(st.takes > 0, "take")
        .label_if(st.split_both_sides_mutated, "both_sides_mutated_after_split")
        .label_if(st.retired_while_others_alive > 0, "one_side_dropped_first")
        .label_if(st.out_of_order_fills > 0, "out_of_order_fill"))
}

pub fn run(ctx: &Ctx, rep: &mut Report) {
    let cases = ctx.share(ctx.tier.pick(120_000, 1_200_000));
    engine::drive(ctx, rep, "split-histories", iovec_sm::history(Mix::Split, 60), cases, check_case);
    let cases = ctx.share(ctx.tier.pick(30_000, 300_000));
    engine::drive(ctx, rep, "memory-histories", iovec_sm::history(Mix::Memory, 60), cases, check_case);
}

fn replay(_ctx: &Ctx, _group: &str, case: &Value) -> CaseResult {
    check_case(&parse_case::<History>(case)?)
}

pub fn def() -> PropDef {
    PropDef {
        id: "C20",
        rule: "split-histories: a generated prefix of operations on one OwningIovec, then clone() (after filling outstanding placeholders; skipped if one is still pending, as the property requires) or take() (with or without pending placeholders, whose tokens follow the taken value in the model), then a generated suffix whose operations are spread over both sides, optionally dropping one side part-way. Each side has its own pipe model and both are compared with their models after every operation (so a write through one side that shows up in the other is a mismatch), with the live-chunk registry and quarantine on (a side that frees memory the other still exposes is caught by address and by poison); the source of a take() must be empty (total_size 0, iovs() Ok(empty)) and stays usable; backfills on the taken value must land at the right offsets. memory-histories adds clone/take/drop-heavy general histories. Non-trivial: both sides received >= 1 mutating operation after the split, at least one of which merged slices or backfilled. Distinct: hash of the serialised history.",
        assumptions: &["as C03", "hook: owning_iovec/verif-hooks (chunk registry, quarantine)"],
        exhaustive_note: None,
        shards: |_t: Tier| 16,
        run,
        replay,
    }
}
