//! C20 — A cloned or taken OwningIovec is an independent snapshot.
use owning_iovec::OwningIovec;
use proptest::prelude::*;
use serde::{Deserialize, Serialize};
use serde_json::Value;

use super::iovec_sm::{self, History, Mix, Profile};
use super::{parse_case, PropDef};
use crate::engine::{self, CaseResult, Ctx, Fail, Outcome, Report, Tier};

const PROFILE: Profile = Profile {
    check_pipe: true,
    check_mem: true,
    check_leak: false,
};

pub fn check_case(h: &History) -> CaseResult {
    let st = iovec_sm::run_history(h, PROFILE)?;
    Ok(Outcome::new(st.split_both_sides_mutated)
        .label_if(st.clones > 0, "clone")
        .label_if(st.takes > 0, "take")
        .label_if(st.split_both_sides_mutated, "both_sides_mutated_after_split")
        .label_if(st.retired_while_others_alive > 0, "one_side_dropped_first")
        .label_if(st.out_of_order_fills > 0, "out_of_order_fill"))
}

/// The original takes back, *borrowed*, the bytes its own snapshot holds (safe code: the
/// snapshot is merely kept alive and untouched), then goes on: clear, copies, placeholders,
/// consumption.  The borrowed slices alias memory of the original's own arena.
#[derive(Clone, Debug, PartialEq, Eq, Hash, Serialize, Deserialize)]
pub struct LendCase {
    /// (copy / borrowed from the caller's pool, offset seed, length) pushed before the clone.
    pub before: Vec<(bool, u32, u16)>,
    /// How much of the original is consumed after the clone (0..=255 of its bytes; 255 = all).
    pub consume: u8,
    /// `extend` with the snapshot's slices (otherwise one `push_borrowed` per slice).
    pub via_extend: bool,
    /// Only the snapshot's last `keep_last` slices are lent when not zero.
    pub keep_last: u8,
    pub after: Vec<LendOp>,
    pub drop_original_first: bool,
}

#[derive(Clone, Copy, Debug, PartialEq, Eq, Hash, Serialize, Deserialize)]
pub enum LendOp {
    Clear,
    PushCopy(u32, u16),
    PushBorrowed(u32, u16),
    ConsumeSlices(u8),
    Advance(u16),
    Patch(u8),
    Flush,
    Ensure(u16),
}

fn pool() -> &'static [u8] {
    use std::sync::OnceLock;
    static POOL: OnceLock<Vec<u8>> = OnceLock::new();
    POOL.get_or_init(|| (0..70_000u32).map(|i| (i.wrapping_mul(2654435761) >> 13) as u8 | 0x80).collect())
}

fn pool_slice(off: u32, len: u16) -> &'static [u8] {
    let p = pool();
    let len = len as usize;
    let off = off as usize % (p.len() - len);
    &p[off..off + len]
}

pub fn check_lend(case: &LendCase) -> CaseResult {
    iovec_sm::with_quarantine(|| check_lend_inner(case))
}

fn check_lend_inner(case: &LendCase) -> CaseResult {
    let mut original: OwningIovec<'_> = OwningIovec::new();
    let mut model: Vec<u8> = vec![];
    for (copy, off, len) in &case.before {
        let b = pool_slice(*off, *len);
        if *copy {
            original.push_copy(b);
        } else {
            original.push_borrowed(b);
        }
        model.extend_from_slice(b);
    }
    let snapshot = original.clone();
    let frozen = model.clone();
    let check = |what: &str, original: &OwningIovec<'_>, model: &[u8]| -> Result<(), Fail> {
        let s = snapshot.flatten().map_err(|_| Fail::new("lend:snapshot-pending", format!("after {what}: the snapshot reports a pending placeholder")))?;
        if s != frozen || snapshot.total_size() != frozen.len() {
            return Err(Fail::new("lend:snapshot-changed", super::codec::mismatch(&format!("after {what} on the original, the untouched snapshot changed"), &s, &frozen)));
        }
        if let Ok(o) = original.flatten() {
            if o != model {
                return Err(Fail::new("lend:original-content", super::codec::mismatch(&format!("after {what}, the original's contents"), &o, model)));
            }
        }
        if original.total_size() != model.len() {
            return Err(Fail::new("lend:original-size", format!("after {what}: total_size {} for {} bytes", original.total_size(), model.len())));
        }
        Ok(())
    };
    check("clone", &original, &model)?;
    // Consume part or all of the original.
    let n = if case.consume == 255 { model.len() } else { model.len() * case.consume as usize / 255 };
    let done = original.consumer().advance_slices(n);
    model.drain(..done);
    check("consuming", &original, &model)?;
    // The snapshot's bytes are queued again, borrowed.
    let lent = snapshot.iovs().map_err(|_| Fail::new("lend:snapshot-pending", "the snapshot reports a pending placeholder".to_string()))?;
    let from = if case.keep_last == 0 { 0 } else { lent.len().saturating_sub(case.keep_last as usize) };
    let lent = &lent[from..];
    if case.via_extend {
        original.extend(lent.iter().copied());
    } else {
        for s in lent {
            original.push_borrowed(s);
        }
    }
    for s in lent {
        model.extend_from_slice(s);
    }
    check("taking the snapshot's slices back", &original, &model)?;
    let mut cleared_after_lend = false;
    for op in &case.after {
        match *op {
            LendOp::Clear => {
                original.clear();
                model.clear();
                cleared_after_lend = true;
            }
            LendOp::PushCopy(off, len) => {
                let b = pool_slice(off, len);
                original.push_copy(b);
                model.extend_from_slice(b);
            }
            LendOp::PushBorrowed(off, len) => {
                let b = pool_slice(off, len);
                original.push_borrowed(b);
                model.extend_from_slice(b);
            }
            LendOp::ConsumeSlices(k) => {
                let k = (k as usize).min(original.consumer().stable_prefix().len());
                let bytes: usize = original.consumer().stable_prefix()[..k].iter().map(|s| s.len()).sum();
                original.consumer().consume(k);
                model.drain(..bytes);
            }
            LendOp::Advance(n) => {
                let done = original.consumer().advance_slices(n as usize);
                model.drain(..done);
            }
            LendOp::Patch(len) => {
                let len = 1 + (len % 8) as usize;
                let r = original.register_patch(&vec![0u8; len]);
                let fill: Vec<u8> = (0..len).map(|i| 0xC0 + i as u8).collect();
                original.backfill_or_panic(r, &fill);
                model.extend_from_slice(&fill);
            }
            LendOp::Flush => original.arena().flush_cache(),
            LendOp::Ensure(n) => original.arena().ensure_capacity(n as usize),
        }
        check(&format!("{op:?}"), &original, &model)?;
    }
    if case.drop_original_first {
        drop(original);
        let s = snapshot.flatten().map_err(|_| Fail::new("lend:snapshot-pending", "pending placeholder in the snapshot".to_string()))?;
        if s != frozen {
            return Err(Fail::new("lend:snapshot-changed", super::codec::mismatch("after dropping the original, the snapshot changed", &s, &frozen)));
        }
    }
    Ok(Outcome::new(cleared_after_lend && !frozen.is_empty()).label_if(cleared_after_lend, "clear_after_taking_back").label_if(case.consume == 255, "original_fully_consumed"))
}

fn lend_case() -> impl Strategy<Value = LendCase> {
    let size = || prop_oneof![4 => 1u16..12, 2 => 60u16..70, 2 => 250u16..262, 1 => 4000u16..4200, 1 => Just(0u16)];
    let op = prop_oneof![
        3 => Just(LendOp::Clear),
        5 => (any::<u32>(), size()).prop_map(|(o, l)| LendOp::PushCopy(o, l)),
        2 => (any::<u32>(), size()).prop_map(|(o, l)| LendOp::PushBorrowed(o, l)),
        2 => (0u8..4).prop_map(LendOp::ConsumeSlices),
        2 => prop_oneof![0u16..20, 0u16..5000].prop_map(LendOp::Advance),
        2 => any::<u8>().prop_map(LendOp::Patch),
        1 => Just(LendOp::Flush),
        1 => prop_oneof![1u16..300, 4000u16..9000].prop_map(LendOp::Ensure),
    ];
    (
        proptest::collection::vec((prop_oneof![3 => Just(true), 1 => Just(false)], any::<u32>(), size()), 1..6),
        prop_oneof![3 => Just(255u8), 1 => Just(0u8), 2 => any::<u8>()],
        any::<bool>(),
        prop_oneof![2 => Just(0u8), 1 => 1u8..3],
        proptest::collection::vec(op, 1..10),
        any::<bool>(),
    )
        .prop_map(|(before, consume, via_extend, keep_last, after, drop_original_first)| LendCase {
            before,
            consume,
            via_extend,
            keep_last,
            after,
            drop_original_first,
        })
}

pub fn run(ctx: &Ctx, rep: &mut Report) {
    let cases = ctx.share(ctx.tier.pick(40_000, 1_000_000));
    engine::drive(ctx, rep, "snapshot-lends-back", lend_case(), cases, check_lend);
    let cases = ctx.share(ctx.tier.pick(120_000, 1_200_000));
    engine::drive(ctx, rep, "split-histories", iovec_sm::history(Mix::Split, 60), cases, check_case);
    let cases = ctx.share(ctx.tier.pick(30_000, 300_000));
    engine::drive(ctx, rep, "memory-histories", iovec_sm::history(Mix::Memory, 60), cases, check_case);
}

fn replay(_ctx: &Ctx, group: &str, case: &Value) -> CaseResult {
    if group == "snapshot-lends-back" {
        return check_lend(&parse_case::<LendCase>(case)?);
    }
    check_case(&parse_case::<History>(case)?)
}

pub fn def() -> PropDef {
    PropDef {
        id: "C20",
        rule: "split-histories: a generated prefix of operations on one OwningIovec, then clone() (after filling outstanding placeholders; skipped if one is still pending, as the property requires) or take() (with or without pending placeholders, whose tokens follow the taken value in the model), then a generated suffix whose operations are spread over both sides, optionally dropping one side part-way. Each side has its own pipe model and both are compared with their models after every operation (so a write through one side that shows up in the other is a mismatch), with the live-chunk registry and quarantine on (a side that frees memory the other still exposes is caught by address and by poison); the source of a take() must be empty (total_size 0, iovs() Ok(empty)) and stays usable; backfills on the taken value must land at the right offsets. memory-histories adds clone/take/drop-heavy general histories. snapshot-lends-back: pushes, clone, the original consumes some or all of its bytes and then takes the untouched snapshot's slices back *borrowed* (extend / push_borrowed of snapshot.iovs(): safe code, the slices alias the original's own arena), then clear / copies / placeholders / consumption / arena flushes on the original; after every step the snapshot still reads what it held at the clone and the original reads its model, also after the original is dropped. Non-trivial: both sides received >= 1 mutating operation after the split, at least one of which merged slices or backfilled. Distinct: hash of the serialised history.",
        assumptions: &["as C03", "hook: owning_iovec/verif-hooks (chunk registry, quarantine)"],
        exhaustive_note: None,
        shards: |_t: Tier| 16,
        run,
        replay,
    }
}
