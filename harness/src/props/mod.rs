//! One module per property; the table below is what `vp` dispatches on.
use serde::de::DeserializeOwned;
use serde_json::Value;

use crate::engine::{CaseResult, Ctx, Fail, Report, Tier};

pub mod c01;
pub mod c02;
pub mod c03;
pub mod c04;
pub mod c05;
pub mod c06;
pub mod c07;
pub mod c08;
pub mod c09;
pub mod c10;
pub mod c11;
pub mod c12;
pub mod abt;
pub mod c13;
pub mod c14;
pub mod c15;
pub mod c16;
pub mod c17;
pub mod c18;
pub mod c19;
pub mod c20;
pub mod codec;
pub mod hcobs_small;
pub mod iovec_sm;
pub mod stream_in;
pub mod streaming;

pub struct PropDef {
    pub id: &'static str,
    /// How cases are generated and what makes one non-trivial / distinct.
    pub rule: &'static str,
    pub assumptions: &'static [&'static str],
    /// Which parts of the check are complete enumerations, if any.
    pub exhaustive_note: Option<&'static str>,
    pub shards: fn(Tier) -> u64,
    pub run: fn(&Ctx, &mut Report),
    pub replay: fn(&Ctx, &str, &Value) -> CaseResult,
}

pub fn all() -> Vec<PropDef> {
    vec![c01::def(), c02::def(), c03::def(), c04::def(), c05::def(), c06::def(), c07::def(), c08::def(), c09::def(), c10::def(), c11::def(), c12::def(), c13::def(), c14::def(), c15::def(), c16::def(), c17::def(), c18::def(), c19::def(), c20::def()]
}

pub fn find(id: &str) -> Option<PropDef> {
    all().into_iter().find(|p| p.id == id)
}

/// Parses a saved case; an unparseable file is an infrastructure problem.
pub fn parse_case<T: DeserializeOwned>(case: &Value) -> Result<T, Fail> {
    serde_json::from_value(case.clone()).map_err(|e| Fail::new("replay:unparseable", format!("cannot parse saved case: {e}")))
}

pub fn default_shards(tier: Tier) -> u64 {
    tier.pick(8, 16)
}
