//! `vp`: driver for the property checks of pkhuong/woodpile.
//!
//!   vp check  <ID> [--tier quick|thorough]     run one property's check (sharded)
//!   vp worker <ID> --tier T --seed S --shard I --of N --out FILE   (internal)
//!   vp replay <ID> <file>                      re-run one saved case
//!   vp list                                    list property ids
use vp_harness::{engine, props};

use std::path::Path;
use std::process::{Command, Stdio};
use std::time::{Duration, Instant};

use engine::{Ctx, Report, ReplayFile, Tier};

/// Exit code of a worker that ran out of memory (address-space limit or real
/// exhaustion): an infrastructure problem, never a violation.
const EXIT_OOM: i32 = 97;

/// The system allocator, except that an allocation failure ends the process
/// with a recognisable exit code instead of an abort signal.
struct ExitOnOom;

unsafe impl std::alloc::GlobalAlloc for ExitOnOom {
    unsafe fn alloc(&self, layout: std::alloc::Layout) -> *mut u8 {
        let p = unsafe { std::alloc::System.alloc(layout) };
        if p.is_null() && layout.size() > 0 {
            unsafe { libc::_exit(EXIT_OOM) };
        }
        p
    }
    unsafe fn dealloc(&self, ptr: *mut u8, layout: std::alloc::Layout) {
        unsafe { std::alloc::System.dealloc(ptr, layout) }
    }
    unsafe fn alloc_zeroed(&self, layout: std::alloc::Layout) -> *mut u8 {
        let p = unsafe { std::alloc::System.alloc_zeroed(layout) };
        if p.is_null() && layout.size() > 0 {
            unsafe { libc::_exit(EXIT_OOM) };
        }
        p
    }
    unsafe fn realloc(&self, ptr: *mut u8, layout: std::alloc::Layout, new_size: usize) -> *mut u8 {
        let p = unsafe { std::alloc::System.realloc(ptr, layout, new_size) };
        if p.is_null() && new_size > 0 {
            unsafe { libc::_exit(EXIT_OOM) };
        }
        p
    }
}

#[global_allocator]
static ALLOC: ExitOnOom = ExitOnOom;

/// Caps the address space of a worker so that a runaway case cannot take the machine down.
fn limit_memory(gib: u64) {
    let lim = libc::rlimit {
        rlim_cur: gib << 30,
        rlim_max: gib << 30,
    };
    unsafe {
        libc::setrlimit(libc::RLIMIT_AS, &lim);
    }
}
use serde_json::json;

fn usage() -> ! {
    eprintln!("usage: vp check <ID> [--tier quick|thorough] | vp replay <ID> <file> | vp list");
    std::process::exit(2);
}

fn arg_value(args: &[String], name: &str) -> Option<String> {
    args.iter().position(|a| a == name).and_then(|i| args.get(i + 1).cloned())
}

fn parse_tier(s: &str) -> Tier {
    match s {
        "quick" => Tier::Quick,
        "thorough" => Tier::Thorough,
        _ => usage(),
    }
}

fn env_seed() -> u64 {
    let seed = std::env::var("VERIF_SEED").ok().and_then(|s| s.trim().parse::<i128>().ok()).unwrap_or(1);
    let seed = (seed.rem_euclid(u64::MAX as i128)) as u64;
    if seed == 0 {
        1
    } else {
        seed
    }
}

fn main() {
    let args: Vec<String> = std::env::args().collect();
    if args.len() < 2 {
        usage();
    }
    engine::panics::install_hook();
    match args[1].as_str() {
        "list" => {
            for p in props::all() {
                println!("{}", p.id);
            }
        }
        "check" => {
            let id = args.get(2).cloned().unwrap_or_else(|| usage());
            let tier = arg_value(&args, "--tier")
                .or_else(|| std::env::var("VERIF_TIER").ok())
                .map(|s| parse_tier(&s))
                .unwrap_or(Tier::Quick);
            std::process::exit(check(&id, tier, env_seed()));
        }
        "worker" => {
            let id = args.get(2).cloned().unwrap_or_else(|| usage());
            let tier = parse_tier(&arg_value(&args, "--tier").unwrap_or_else(|| usage()));
            let seed: u64 = arg_value(&args, "--seed").and_then(|s| s.parse().ok()).unwrap_or_else(|| usage());
            let shard: u64 = arg_value(&args, "--shard").and_then(|s| s.parse().ok()).unwrap_or_else(|| usage());
            let of: u64 = arg_value(&args, "--of").and_then(|s| s.parse().ok()).unwrap_or_else(|| usage());
            let out = arg_value(&args, "--out").unwrap_or_else(|| usage());
            if let Some(j) = arg_value(&args, "--journal") {
                engine::enable_journal(j.into());
            }
            // The only check that needs more is C11's thorough 'more than i32::MAX pairs' case (8 GiB).
            limit_memory(if id == "C11" && tier == Tier::Thorough { 24 } else { 6 });
            worker(&id, tier, seed, shard, of, &out);
        }
        "replay" => {
            let id = args.get(2).cloned().unwrap_or_else(|| usage());
            let file = args.get(3).cloned().unwrap_or_else(|| usage());
            std::process::exit(replay(&id, &file));
        }
        "replay-child" => {
            let id = args.get(2).cloned().unwrap_or_else(|| usage());
            let file = args.get(3).cloned().unwrap_or_else(|| usage());
            std::process::exit(replay_child(&id, &file));
        }
        "c19case" => props::c19::child_main(),
        "fuzz-seeds" => {
            // vp fuzz-seeds <target> <dir>: writes the starting corpus of a campaign.
            let target = args.get(2).cloned().unwrap_or_else(|| usage());
            let dir = args.get(3).cloned().unwrap_or_else(|| usage());
            let _ = std::fs::create_dir_all(&dir);
            for (i, seed) in vp_harness::fuzzing::seeds(&target).iter().enumerate() {
                let _ = std::fs::write(Path::new(&dir).join(format!("seed-{i:02}")), seed);
            }
        }
        "fuzz-replay" => {
            // vp fuzz-replay <target> <artifact>: runs one fuzz input through the same oracles.
            let target = args.get(2).cloned().unwrap_or_else(|| usage());
            let file = args.get(3).cloned().unwrap_or_else(|| usage());
            let Ok(data) = std::fs::read(&file) else {
                eprintln!("cannot read {file}");
                std::process::exit(2);
            };
            let r = engine::panics::catch(|| vp_harness::fuzzing::run(&target, &data));
            let (prop, fail) = match r {
                Ok((_, Ok(_))) => {
                    println!("replay {file}: case passes");
                    std::process::exit(0);
                }
                Ok((prop, Err(f))) => (prop.to_string(), f),
                Err(p) => (vp_harness::fuzzing::properties_of(&target).first().copied().unwrap_or("?").to_string(), engine::Fail::new(format!("panic:{}", p.signature()), p.describe())),
            };
            println!("VIOLATION property={prop} replay={file}");
            println!("  signature: {}", fail.sig);
            println!("  {}", fail.msg);
            std::process::exit(1);
        }
        _ => usage(),
    }
}

fn worker(id: &str, tier: Tier, seed: u64, shard: u64, of: u64, out: &str) {
    let Some(prop) = props::find(id) else {
        eprintln!("unknown property {id}");
        std::process::exit(2);
    };
    let ctx = Ctx {
        id: id.to_string(),
        tier,
        seed,
        shard,
        nshards: of,
        known: engine::load_known(),
    };
    let mut rep = Report::default();
    if shard == 0 {
        engine::run_regress(&ctx, &mut rep, prop.replay);
    }
    (prop.run)(&ctx, &mut rep);
    engine::flush_group_times(&mut rep);
    let text = serde_json::to_string(&rep).unwrap();
    if let Err(e) = std::fs::write(out, text) {
        eprintln!("worker: cannot write {out}: {e}");
        std::process::exit(2);
    }
}

/// Shards also run by the build without debug assertions.
const NDA_SHARDS: u64 = 4;

fn check(id: &str, tier: Tier, seed: u64) -> i32 {
    let Some(prop) = props::find(id) else {
        eprintln!("unknown property {id}");
        return 2;
    };
    let t0 = Instant::now();
    let nshards = (prop.shards)(tier).max(1);
    // Testing aid: VERIF_ONLY_FUZZ=1 skips the generated-case shards of a thorough run.
    let spawn_shards = if std::env::var("VERIF_ONLY_FUZZ").is_ok() && tier == Tier::Thorough { 0 } else { nshards };
    let exe = std::env::current_exe().expect("own path");
    let tmp = engine::verif_root().join("harness/target/vp-tmp");
    let _ = std::fs::create_dir_all(&tmp);
    let pid = std::process::id();

    // Workers: the shards of the ordinary build (optimised, debug assertions and overflow checks
    // on), plus a few shards of the same partition run by the build without debug assertions
    // (`--profile nda`, what users ship): the same cases under both build configurations.
    struct Spec {
        label: String,
        exe: std::path::PathBuf,
        shard: u64,
        of: u64,
    }
    let mut specs: Vec<Spec> = (0..spawn_shards)
        .map(|shard| Spec {
            label: format!("{shard}"),
            exe: exe.clone(),
            shard,
            of: nshards,
        })
        .collect();
    let nda_exe = engine::verif_root().join("harness/target/nda/vp");
    let nda_shards = if nda_exe.exists() && spawn_shards > 0 && std::env::var("VERIF_NO_NDA").map(|v| v.is_empty()).unwrap_or(true) { NDA_SHARDS.min(nshards) } else { 0 };
    for shard in 0..nda_shards {
        specs.push(Spec {
            label: format!("nda-{shard}"),
            exe: nda_exe.clone(),
            shard,
            of: nshards,
        });
    }
    let mut children = vec![];
    for spec in specs {
        let out = tmp.join(format!("{id}-{pid}-{}.json", spec.label));
        let _ = std::fs::remove_file(&out);
        let child = Command::new(&spec.exe)
            .args([
                "worker",
                id,
                "--tier",
                tier.name(),
                "--seed",
                &seed.to_string(),
                "--shard",
                &spec.shard.to_string(),
                "--of",
                &spec.of.to_string(),
                "--out",
            ])
            .arg(&out)
            .stdin(Stdio::null())
            .spawn();
        match child {
            Ok(c) => children.push((spec, c, out)),
            Err(e) => {
                eprintln!("cannot spawn worker: {e}");
                return 2;
            }
        }
    }

    // Watchdog: a hang is an infrastructure problem (exit 2), never a violation.
    let limit = Duration::from_secs(tier.pick(1500, 6 * 3600));
    let mut merged = Report::default();
    let mut infra = vec![];
    let mut crashed: Vec<(Spec, i32)> = vec![];
    for (spec, mut child, out) in children {
        let shard = spec.label.clone();
        let status = loop {
            match child.try_wait() {
                Ok(Some(st)) => break Some(st),
                Ok(None) => {
                    if t0.elapsed() > limit {
                        let _ = child.kill();
                        let _ = child.wait();
                        break None;
                    }
                    std::thread::sleep(Duration::from_millis(20));
                }
                Err(e) => {
                    infra.push(format!("shard {shard}: wait failed: {e}"));
                    break None;
                }
            }
        };
        match status {
            Some(st) if st.success() => match std::fs::read_to_string(&out).ok().and_then(|t| serde_json::from_str::<Report>(&t).ok()) {
                Some(rep) => merged.merge(rep),
                None => infra.push(format!("shard {shard}: no readable report")),
            },
            Some(st) if st.code() == Some(EXIT_OOM) => infra.push(format!("shard {shard}: worker ran out of memory (address-space limit)")),
            Some(st) => {
                use std::os::unix::process::ExitStatusExt;
                match st.signal() {
                    Some(sig) => crashed.push((spec, sig)),
                    None => infra.push(format!("shard {shard}: worker exited with {st}")),
                }
            }
            None => infra.push(format!("shard {shard}: killed by the watchdog after {:?}", limit)),
        }
        let _ = std::fs::remove_file(&out);
    }

    // A worker killed by a signal (abort from a memory-safety check, segfault,
    // stack overflow): run that shard again with the crash journal on, to
    // recover the case that kills it.
    for (spec, sig) in crashed {
        let shard = spec.label.clone();
        let journal = tmp.join(format!("{id}-{pid}-{shard}.journal"));
        let out = tmp.join(format!("{id}-{pid}-{shard}.rerun.json"));
        let _ = std::fs::remove_file(&journal);
        let status = Command::new(&spec.exe)
            .args(["worker", id, "--tier", tier.name(), "--seed", &seed.to_string(), "--shard", &spec.shard.to_string(), "--of", &spec.of.to_string(), "--out"])
            .arg(&out)
            .arg("--journal")
            .arg(&journal)
            .stdin(Stdio::null())
            .stderr(Stdio::null())
            .status();
        let entry = std::fs::read_to_string(&journal).ok().and_then(|t| serde_json::from_str::<engine::JournalEntry>(&t).ok());
        use std::os::unix::process::ExitStatusExt;
        match (status, entry) {
            (Ok(st), Some(entry)) if st.signal().is_some() => {
                let ctx = Ctx {
                    id: id.to_string(),
                    tier,
                    seed,
                    shard: spec.shard,
                    nshards: spec.of,
                    known: engine::load_known(),
                };
                engine::record_crash(&ctx, &mut merged, entry, &format!("signal-{}", st.signal().unwrap()));
            }
            (Ok(st), _) if st.success() => {
                infra.push(format!("shard {shard}: worker was killed by signal {sig} but ran to completion when re-run with the crash journal on"));
                if let Some(rep) = std::fs::read_to_string(&out).ok().and_then(|t| serde_json::from_str::<Report>(&t).ok()) {
                    merged.merge(rep);
                }
            }
            (st, _) => infra.push(format!("shard {shard}: worker killed by signal {sig}; re-run with the journal gave {st:?} and no usable journal")),
        }
        let _ = std::fs::remove_file(&journal);
        let _ = std::fs::remove_file(&out);
    }
    infra.extend(merged.infra_errors.clone());

    if tier == Tier::Thorough && std::env::var("VERIF_NO_FUZZ").is_err() {
        fuzz_campaigns(id, seed, &mut merged, &mut infra);
    }

    let known = engine::load_known();
    let mut violations = 0;
    for k in known.iter().filter(|k| k.property == id) {
        println!("KNOWN-FINDING: property={} {} [sig={}]", id, k.what, k.sig);
    }
    for f in &merged.found {
        if f.known {
            continue;
        }
        violations += 1;
        println!("VIOLATION property={} replay={}", id, f.replay);
        println!("  signature: {}", f.sig);
        println!("  {}", f.msg);
    }

    let wall = t0.elapsed().as_secs_f64();
    let distinct = merged.nontrivial_hashes.len() as u64 + merged.enumerated_nontrivial;
    let mut coverage = json!({
        "evaluations": merged.evaluations,
        "distinct_nontrivial": distinct,
        "nontrivial_cases_total": merged.nontrivial_cases,
        "rule": prop.rule,
        "samples": merged.samples,
        "labels": merged.labels,
        "sub_reports": merged.sub,
        "shards": nshards,
        "shards_without_debug_assertions": nda_shards,
        "excluded_known_findings": merged.excluded_known,
        "notes": merged.notes,
    });
    if merged.hash_cap_hit {
        coverage["distinct_nontrivial_note"] = json!("hash set capped per shard; distinct_nontrivial is a lower bound");
    }
    if let Some(ex) = prop.exhaustive_note {
        coverage["exhaustive_parts"] = json!(ex);
    }
    let evidence = json!({
        "property_id": id,
        "tier": tier.name(),
        "seed": seed,
        "level": "exploration",
        "coverage": coverage,
        "assumptions": prop.assumptions,
        "wall_s": wall,
        "violations": violations,
        "failures": merged.found,
        "infrastructure_errors": infra,
    });
    let dir = engine::verif_root().join("evidence");
    let _ = std::fs::create_dir_all(&dir);
    let path = dir.join(format!("{id}.json"));
    if let Err(e) = std::fs::write(&path, serde_json::to_string_pretty(&evidence).unwrap()) {
        eprintln!("cannot write evidence {}: {e}", path.display());
        return 2;
    }

    println!(
        "{id} [{}] seed={seed}: {} cases, {} distinct non-trivial, {} violation(s), {:.1}s",
        tier.name(),
        merged.evaluations,
        distinct,
        violations,
        wall
    );
    if violations > 0 {
        return 1;
    }
    if !infra.is_empty() {
        for e in &infra {
            eprintln!("INCONCLUSIVE: {e}");
        }
        return 2;
    }
    0
}

/// Thorough tier: coverage-guided campaigns (libFuzzer + AddressSanitizer) with the
/// same oracles inside the target, restricted to this property.
fn fuzz_campaigns(id: &str, seed: u64, merged: &mut Report, infra: &mut Vec<String>) {
    let targets = vp_harness::fuzzing::targets_for(id);
    if targets.is_empty() {
        return;
    }
    let fuzz_dir = engine::verif_root().join("fuzz");
    let build = Command::new("cargo")
        .args(["+nightly", "fuzz", "build", "--fuzz-dir"])
        .arg(&fuzz_dir)
        .env("CARGO_NET_OFFLINE", "true")
        .stdin(Stdio::null())
        .stdout(Stdio::null())
        .stderr(Stdio::null())
        .status();
    if !matches!(build, Ok(st) if st.success()) {
        infra.push("fuzz targets do not build (cargo +nightly fuzz build)".to_string());
        return;
    }
    let exe = std::env::current_exe().expect("own path");
    for (target, runs, max_len) in targets {
        let work = fuzz_dir.join("work").join(format!("{id}-{target}-{}", std::process::id()));
        let corpus = work.join("corpus");
        let artifacts = work.join("artifacts");
        let _ = std::fs::remove_dir_all(&work);
        let _ = std::fs::create_dir_all(&corpus);
        let _ = std::fs::create_dir_all(&artifacts);
        let _ = Command::new(&exe).args(["fuzz-seeds", target]).arg(&corpus).status();
        let jobs = 16;
        let t0 = Instant::now();
        let status = Command::new("cargo")
            .args(["+nightly", "fuzz", "run", "--fuzz-dir"])
            .arg(&fuzz_dir)
            .arg(target)
            .arg(&corpus)
            .arg("--")
            .arg(format!("-runs={runs}"))
            .arg(format!("-seed={seed}"))
            .arg("-len_control=0")
            // Comparison operands guide the mutations: constants the code compares against
            // (sizes, counts, tags) get synthesised instead of having to be guessed.
            .arg("-use_value_profile=1")
            .arg(format!("-max_len={max_len}"))
            .arg(format!("-jobs={jobs}"))
            .arg(format!("-workers={jobs}"))
            .arg("-rss_limit_mb=4096")
            // A wall-clock cap per campaign on top of the run count: reaching it ends the campaign
            // normally (what was explored is what the evidence reports), it is never a failure.
            .arg("-max_total_time=420")
            // Leaks of the code under test are C10's subject (live-chunk counters); the harness itself
            // leaks a few static buffers on purpose.
            .arg("-detect_leaks=0")
            .arg(format!("-artifact_prefix={}/", artifacts.display()))
            .env("CARGO_NET_OFFLINE", "true")
            .env("VERIF_FUZZ_PROPERTY", id)
            // -detect_leaks=0 only stops libFuzzer's per-input leak checks; LeakSanitizer's
            // report at process exit is switched off here.
            .env("ASAN_OPTIONS", "detect_leaks=0")
            .current_dir(&work)
            .stdin(Stdio::null())
            .stdout(Stdio::null())
            .stderr(Stdio::null())
            .status();
        let secs = t0.elapsed().as_secs_f64();
        let corpus_size = std::fs::read_dir(&corpus).map(|d| d.count()).unwrap_or(0);
        // Executions actually performed, from the workers' logs ("Done N runs", or the last status line).
        let mut executed = 0u64;
        for j in 0..jobs {
            let Ok(text) = std::fs::read_to_string(work.join(format!("fuzz-{j}.log"))) else { continue };
            let done = text.lines().rev().find_map(|l| l.strip_prefix("Done ").and_then(|r| r.split_whitespace().next()).and_then(|n| n.parse::<u64>().ok()));
            let last_status = text.lines().rev().find_map(|l| l.strip_prefix('#').and_then(|r| r.split_whitespace().next()).and_then(|n| n.parse::<u64>().ok()));
            executed += done.or(last_status).unwrap_or(0);
        }
        merged.sub_add(&format!("fuzz:{target}"), "runs", executed);
        merged.sub_set(&format!("fuzz:{target}"), "runs_requested", json!(runs * jobs));
        merged.sub_set(&format!("fuzz:{target}"), "jobs", json!(jobs));
        merged.sub_set(&format!("fuzz:{target}"), "corpus_files_at_end", json!(corpus_size));
        merged.sub_set(&format!("fuzz:{target}"), "wall_s", json!(secs));
        merged.sub_set(&format!("fuzz:{target}"), "sanitizer", json!("address"));
        merged.evaluations += executed;
        // Any artifact?  Confirm it with the same oracle in the ordinary build.
        let mut crashes: Vec<std::path::PathBuf> = std::fs::read_dir(&artifacts).map(|d| d.filter_map(|e| e.ok().map(|e| e.path())).collect()).unwrap_or_default();
        crashes.sort();
        for (k, art) in crashes.iter().enumerate() {
            let Ok(data) = std::fs::read(art) else { continue };
            let name = art.file_name().map(|n| n.to_string_lossy().to_string()).unwrap_or_default();
            // A slow unit is an input that took more than 10 s (a loaded machine, a sanitizer build) and then
            // completed with its oracle satisfied; the campaign went on.  It is counted, nothing more.
            if name.starts_with("slow-unit-") {
                merged.sub_add(&format!("fuzz:{target}"), "slow_units_reported_by_libfuzzer", 1);
                continue;
            }
            if name.starts_with("oom-") || name.starts_with("timeout-") {
                infra.push(format!("fuzz {target}: libFuzzer reported {} (resource limit, not a violation)", art.display()));
                continue;
            }
            let dest = engine::replay_dir().join(format!("{id}-fuzz-{target}-{seed}-{k}.bin"));
            let _ = std::fs::create_dir_all(engine::replay_dir());
            let _ = std::fs::write(&dest, &data);
            let verdict = Command::new(&exe).args(["fuzz-replay", target]).arg(&dest).env("VERIF_FUZZ_PROPERTY", id).output();
            let (sig, msg) = match &verdict {
                Ok(o) if o.status.code() == Some(1) => {
                    let text = String::from_utf8_lossy(&o.stdout).to_string();
                    let sig = text.lines().find_map(|l| l.trim().strip_prefix("signature: ")).unwrap_or("fuzz:oracle").to_string();
                    (sig, text.lines().last().unwrap_or("").trim().to_string())
                }
                Ok(o) if o.status.code() == Some(0) => {
                    // Crashed under the sanitizer but passes in the ordinary build: a memory error only ASan sees.
                    ("asan:memory-error".to_string(), format!("libFuzzer + AddressSanitizer aborted on this input (target {target}) although the oracles pass in the ordinary build"))
                }
                Ok(o) => (format!("crash:{:?}", o.status), format!("replaying the artifact ends with {:?}", o.status)),
                Err(e) => ("fuzz:replay-failed".to_string(), e.to_string()),
            };
            if !merged.found.iter().any(|f| f.sig == sig) {
                merged.found.push(engine::Found {
                    sig,
                    msg,
                    replay: dest.display().to_string(),
                    known: false,
                });
            } else {
                // Several jobs usually hit the same defect: keep one artifact per signature.
                let _ = std::fs::remove_file(&dest);
            }
        }
        if let Ok(st) = &status {
            if !st.success() && crashes.is_empty() {
                infra.push(format!("fuzz {target}: campaign ended with {st} but left no artifact"));
            }
        }
        let _ = std::fs::remove_dir_all(&work);
    }
}

fn replay(id: &str, file: &str) -> i32 {
    // libFuzzer artifacts are raw bytes named <ID>-fuzz-<target>-...; everything else is a JSON replay file.
    if let Some(name) = Path::new(file).file_name().map(|n| n.to_string_lossy().to_string()) {
        if let Some(rest) = name.strip_prefix(&format!("{id}-fuzz-")) {
            if let Some(target) = vp_harness::fuzzing::TARGETS.iter().find(|t| rest.starts_with(&format!("{t}-"))) {
                let exe = std::env::current_exe().expect("own path");
                let st = Command::new(exe).args(["fuzz-replay", target, file]).env("VERIF_FUZZ_PROPERTY", id).status();
                use std::os::unix::process::ExitStatusExt;
                return match st {
                    Ok(st) => match (st.code(), st.signal()) {
                        (Some(c), _) => c,
                        (None, Some(sig)) => {
                            println!("VIOLATION property={id} replay={file}");
                            println!("  signature: crash:signal-{sig}");
                            1
                        }
                        _ => 2,
                    },
                    Err(_) => 2,
                };
            }
        }
    }
    // The case runs in a child process, so that one which kills the process
    // (abort, segfault) is still reported as a violation; a case found by the build without
    // debug assertions is replayed by that build.
    let mut exe = std::env::current_exe().expect("own path");
    let wants_nda = std::fs::read_to_string(file).ok().and_then(|t| serde_json::from_str::<ReplayFile>(&t).ok()).map(|r| r.profile == "nda").unwrap_or(false);
    let nda_exe = engine::verif_root().join("harness/target/nda/vp");
    if wants_nda && nda_exe.exists() && engine::build_profile() != "nda" {
        exe = nda_exe;
    }
    let status = Command::new(exe).args(["replay-child", id, file]).stdin(Stdio::null()).status();
    use std::os::unix::process::ExitStatusExt;
    match status {
        Ok(st) => match (st.code(), st.signal()) {
            (Some(code), _) => code,
            (None, Some(sig)) => {
                println!("VIOLATION property={id} replay={file}");
                println!("  signature: crash:signal-{sig}");
                println!("  the process running this case was killed by signal {sig}");
                1
            }
            _ => 2,
        },
        Err(e) => {
            eprintln!("cannot spawn replay child: {e}");
            2
        }
    }
}

fn replay_child(id: &str, file: &str) -> i32 {
    let Some(prop) = props::find(id) else {
        eprintln!("unknown property {id}");
        return 2;
    };
    let text = match std::fs::read_to_string(file) {
        Ok(t) => t,
        Err(e) => {
            eprintln!("cannot read {file}: {e}");
            return 2;
        }
    };
    let rf: ReplayFile = match serde_json::from_str(&text) {
        Ok(r) => r,
        Err(e) => {
            eprintln!("cannot parse {file}: {e}");
            return 2;
        }
    };
    let ctx = Ctx {
        id: id.to_string(),
        tier: rf.tier,
        seed: rf.seed,
        shard: 0,
        nshards: 1,
        known: vec![],
    };
    let group = rf.group.clone();
    let case = rf.case.clone();
    let r = match engine::panics::catch(|| (prop.replay)(&ctx, &group, &case)) {
        Ok(r) => r,
        Err(p) => Err(engine::Fail::new(format!("panic:{}", p.signature()), p.describe())),
    };
    match r {
        Ok(_) => {
            println!("replay {file}: case passes");
            0
        }
        Err(f) if f.sig == "replay:unparseable" => {
            eprintln!("replay {file}: {}", f.msg);
            2
        }
        Err(f) => {
            println!("VIOLATION property={id} replay={file}");
            println!("  signature: {}", f.sig);
            println!("  {}", f.msg);
            1
        }
    }
}
